#!/usr/bin/env python3
"""Operator-level mutants of the functions under contract, used to look for holes in the checks (self-test of the
machinery; not part of any registered check).

  mutate.py list                      -> prints the catalogue (id, file, function, line, what)
  mutate.py survivors <out.json> [N]  -> for every mutant (or a deterministic sample of N): apply it in a scratch worktree,
                                         run the repository's tests; mutants that pass the whole suite are written to out.json
  mutate.py check <survivors.json> <out.json>
                                      -> for each surviving mutant run the relevant quick checks (A5VERIF_REPO = scratch
                                         worktree) and record exit codes
Nothing is written to /repo; worktrees are removed as soon as a mutant is done.
"""
import ast
import hashlib
import json
import os
import subprocess
import sys
import tempfile

REPO = "/repo"
TARGETS = {
    "a5/core/serialization.py": (["serialize", "deserialize", "get_resolution", "cell_to_children", "cell_to_parent", "get_stride", "is_first_child",
                                  "get_res0_cells"], ["C05", "C06", "C20"]),
    "a5/core/compact.py": (["compact", "uncompact", "_hierarchy_key"], ["C08", "C09", "C10"]),
    "a5/core/hex.py": (["u64_to_hex", "hex_to_u64"], ["C19"]),
    "a5/core/cell_info.py": (["get_num_cells", "get_num_children", "cell_area"], ["C20", "C10"]),
    "a5/core/hilbert.py": (["quaternary_to_kj", "quaternary_to_flips", "kj_to_ij", "ij_to_kj", "ij_to_quaternary", "s_to_anchor", "_s_to_anchor", "ij_to_s",
                            "_ij_to_s", "get_required_digits", "shift_digits", "_shift_digits"], ["C18"]),
}
FUNC_CHECKS = {
    "serialize": ["C05", "C06"], "deserialize": ["C05", "C06"], "get_resolution": ["C05", "C06"],
    "cell_to_children": ["C06", "C20", "C10"], "cell_to_parent": ["C06", "C09"], "get_res0_cells": ["C06", "C20"],
    "get_stride": ["C09", "C08"], "is_first_child": ["C09", "C08"], "compact": ["C09", "C08"], "_hierarchy_key": ["C09", "C08"],
    "uncompact": ["C10"], "get_num_cells": ["C20"], "get_num_children": ["C20", "C10"], "cell_area": ["C20"],
    "u64_to_hex": ["C19"], "hex_to_u64": ["C19"],
}
CMP = {ast.Lt: "<", ast.LtE: "<=", ast.Gt: ">", ast.GtE: ">=", ast.Eq: "==", ast.NotEq: "!="}
CMP_SWAP = {"<": ["<="], "<=": ["<"], ">": [">="], ">=": [">"], "==": ["!="], "!=": ["=="]}
BIN = {ast.Add: "+", ast.Sub: "-", ast.LShift: "<<", ast.RShift: ">>", ast.Mult: "*", ast.FloorDiv: "//", ast.Mod: "%", ast.BitAnd: "&", ast.BitOr: "|"}
BIN_SWAP = {"+": ["-"], "-": ["+"], "<<": [">>"], ">>": ["<<"], "*": ["+"], "//": ["*"], "%": ["//"], "&": ["|"], "|": ["&"]}


def find_op(src_lines, left_end, right_start, op):
    """Locate the operator token between two sub-expressions (same line only)."""
    (l1, c1), (l2, c2) = left_end, right_start
    if l1 != l2:
        return None
    seg = src_lines[l1 - 1][c1:c2]
    k = seg.find(op)
    if k < 0 or seg.count(op) != 1 and op not in ("<<", ">>", "<=", ">=", "==", "!=", "//"):
        return None
    return (l1, c1 + k)


def catalogue():
    out = []
    for path, (funcs, checks) in TARGETS.items():
        src = open(os.path.join(REPO, path)).read()
        lines = src.split("\n")
        tree = ast.parse(src)
        for fn in ast.walk(tree):
            if not isinstance(fn, (ast.FunctionDef,)) or fn.name not in funcs:
                continue
            for n in ast.walk(fn):
                if isinstance(n, ast.Compare) and len(n.ops) == 1 and type(n.ops[0]) in CMP:
                    op = CMP[type(n.ops[0])]
                    pos = find_op(lines, (n.left.end_lineno, n.left.end_col_offset), (n.comparators[0].lineno, n.comparators[0].col_offset), op)
                    if pos:
                        for new in CMP_SWAP[op]:
                            out.append(dict(file=path, func=fn.name, line=pos[0], col=pos[1], old=op, new=new, checks=checks))
                elif isinstance(n, ast.BinOp) and type(n.op) in BIN:
                    op = BIN[type(n.op)]
                    pos = find_op(lines, (n.left.end_lineno, n.left.end_col_offset), (n.right.lineno, n.right.col_offset), op)
                    if pos:
                        for new in BIN_SWAP[op]:
                            out.append(dict(file=path, func=fn.name, line=pos[0], col=pos[1], old=op, new=new, checks=checks))
                elif isinstance(n, ast.Constant) and isinstance(n.value, int) and not isinstance(n.value, bool) and 0 <= n.value <= 64 \
                        and n.lineno == n.end_lineno:
                    old = lines[n.lineno - 1][n.col_offset:n.end_col_offset]
                    if old != str(n.value):
                        continue
                    for new in (n.value + 1, n.value - 1):
                        if new < 0:
                            continue
                        out.append(dict(file=path, func=fn.name, line=n.lineno, col=n.col_offset, old=old, new=str(new), checks=checks))
                elif isinstance(n, ast.BoolOp) and len(n.values) == 2 and n.values[0].end_lineno == n.values[1].lineno:
                    op = "and" if isinstance(n.op, ast.And) else "or"
                    l = n.values[0].end_lineno
                    seg = lines[l - 1][n.values[0].end_col_offset:n.values[1].col_offset]
                    k = seg.find(" %s " % op)
                    if k >= 0:
                        out.append(dict(file=path, func=fn.name, line=l, col=n.values[0].end_col_offset + k + 1, old=op, new="or" if op == "and" else "and", checks=checks))
    seen = set()
    res = []
    for m in out:
        key = (m["file"], m["line"], m["col"], m["new"])
        if key in seen:
            continue
        seen.add(key)
        m["id"] = hashlib.sha1(repr(key).encode()).hexdigest()[:8]
        res.append(m)
    return res


def apply(m, root):
    p = os.path.join(root, m["file"])
    lines = open(p).read().split("\n")
    l = lines[m["line"] - 1]
    assert l[m["col"]:m["col"] + len(m["old"])] == m["old"], (m, l)
    lines[m["line"] - 1] = l[:m["col"]] + m["new"] + l[m["col"] + len(m["old"]):]
    open(p, "w").write("\n".join(lines))


def worktree():
    wt = tempfile.mkdtemp(prefix="mut.", dir="/tmp")
    os.rmdir(wt)
    subprocess.run(["git", "-C", REPO, "worktree", "add", "-q", "--detach", wt, "HEAD"], check=True)
    return wt


def drop(wt):
    subprocess.run(["git", "-C", REPO, "worktree", "remove", "--force", wt])


def tests_pass(wt, nproc="4"):
    try:
        p = subprocess.run(["/venv/bin/python", "-m", "pytest", "-q", "-x", "-p", "no:cacheprovider", "-n", nproc], cwd=wt, capture_output=True, text=True, timeout=120)
    except subprocess.TimeoutExpired:
        return False, "timeout"
    tail = (p.stdout.strip().splitlines() or [""])[-1]
    return p.returncode == 0, tail


def main():
    cmd = sys.argv[1]
    cat = catalogue()
    if cmd == "list":
        for m in cat:
            print(m["id"], m["file"], m["func"], "line", m["line"], "%s -> %s" % (m["old"], m["new"]))
        print(len(cat), "mutants")
        return
    if cmd == "survivors":
        out = sys.argv[2]
        n = int(sys.argv[3]) if len(sys.argv) > 3 else None
        cat.sort(key=lambda m: m["id"])
        if n:
            cat = cat[:n]
        after = os.environ.get("MUT_AFTER")
        if after:
            cat = [m for m in cat if m["id"] > after]
        from concurrent.futures import ThreadPoolExecutor

        def one(m):
            wt = worktree()
            try:
                apply(m, wt)
                try:
                    compile(open(os.path.join(wt, m["file"])).read(), m["file"], "exec")
                except SyntaxError:
                    return None
                ok, tail = tests_pass(wt)
                return dict(m, tests=tail) if ok else None
            finally:
                drop(wt)
        surv = []
        with ThreadPoolExecutor(5) as ex:
            for k, r in enumerate(ex.map(one, cat)):
                if r:
                    surv.append(r)
                    print("SURVIVES", r["id"], r["file"], r["func"], r["line"], r["old"], "->", r["new"], flush=True)
        json.dump(surv, open(out, "w"), indent=1)
        print(len(surv), "survivors of", len(cat))
        return
    if cmd == "check":
        surv = json.load(open(sys.argv[2]))
        out = sys.argv[3]
        done = json.load(open(out)) if os.path.exists(out) else {}
        for m in surv:
            if m["id"] in done:
                continue
            wt = worktree()
            rec = dict(m, results={})
            try:
                apply(m, wt)
                env = dict(os.environ, A5VERIF_REPO=wt)
                for c in FUNC_CHECKS.get(m["func"], m["checks"]):
                    try:
                        p = subprocess.run(["python3-vt", "-m", "a5verif", "check", c, "--tier", "quick"], cwd="/verif", env=env, capture_output=True, text=True, timeout=2400)
                        first = [l for l in p.stdout.splitlines() if "failed obligation" in l][:1]
                        rec["results"][c] = {"exit": p.returncode, "first": first[0].strip()[:160] if first else ""}
                    except subprocess.TimeoutExpired:
                        rec["results"][c] = {"exit": "timeout"}
                    if rec["results"][c]["exit"] == 1:
                        break        # caught
            finally:
                drop(wt)
            done[m["id"]] = rec
            json.dump(done, open(out, "w"), indent=1)
            print(m["id"], m["file"], m["func"], m["line"], m["old"], "->", m["new"], {c: r["exit"] for c, r in rec["results"].items()}, flush=True)
        return


if __name__ == "__main__":
    main()

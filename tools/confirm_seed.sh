#!/bin/bash
# usage: confirm_seed.sh <dir with patch.diff demo.py>  -- confirms in a scratch worktree of /repo HEAD:
#  patched: test-suite passes and demo fails; unpatched: demo passes.  Prints one summary line.
set -u
D=$(readlink -f "$1")
WT=$(mktemp -d /tmp/confirm_wt.XXXXXX)
rmdir "$WT"
git -C /repo worktree add -q --detach "$WT" HEAD || exit 3
cd "$WT"
mkdir -p seed_out/x && cp "$D/demo.py" seed_out/x/demo.py
/venv/bin/python seed_out/x/demo.py >$WT.clean.out 2>&1; CLEAN=$?
if ! git apply "$D/patch.diff" 2>$WT.apply.err; then echo "APPLY-FAILED $(cat $WT.apply.err | head -2)"; cd /; git -C /repo worktree remove --force "$WT"; exit 2; fi
TESTS=$(/venv/bin/python -m pytest -q -p no:cacheprovider -n 8 2>&1 | tail -1)
/venv/bin/python seed_out/x/demo.py >$WT.patched.out 2>&1; PATCHED=$?
cd /
git -C /repo worktree remove --force "$WT"
rm -f $WT.clean.out $WT.apply.err; echo "clean_demo_exit=$CLEAN patched_demo_exit=$PATCHED tests='$TESTS' patched_out=$(head -c 300 $WT.patched.out | tr "\n" " ")"; rm -f $WT.patched.out

#!/bin/bash
# usage: try_seed.sh <patch.diff> <ID> [tier] -- applies the patch to /repo, runs the check, reverts.
set -u
P=$(readlink -f "$1"); ID=$2; TIER=${3:-quick}
cd /repo || exit 3
if [ -n "$(git status --porcelain)" ]; then echo "/repo not clean"; exit 3; fi
git apply "$P" || { echo APPLY-FAILED; exit 2; }
cd /verif && python3-vt -m a5verif check $ID --tier $TIER 2>&1 | cut -c1-600 | grep -v "^KNOWN" ; RC=${PIPESTATUS[0]}
git -C /repo checkout -- . 
echo "check_exit=$RC"

#!/bin/bash
# Applies every seeded change in /verif/seeded to /repo (one at a time, reverted straight afterwards), runs the
# check(s) expected to notice it, and prints one line per (seed, check).  Usage: tools/run_seeds.sh [seed-prefix]
cd /verif
PFX=${1:-}
declare -A CHECKS=(
 [C02-1]="C17" [C02-2]="" [C05-1]="C05" [C05-2]="C05" [C06-1]="C06" [C06-2]="C06" [C08-1]="C08 C09" [C08-2]="C08 C09"
 [C09-1]="C09" [C09-2]="C09" [C10-1]="C10" [C10-2]="C10" [C12-1]="C12 C17" [C12-2]="C12" [C15-1]="C15" [C15-2]="C15"
 [C16-1]="C16" [C16-2]="C16" [C17-1]="C17" [C17-2]="C17" [C18-1]="C18" [C18-2]="C18" [C19-1]="C19" [C19-2]="C19"
 [C20-1]="C20" [C20-2]="C20" [C05-3]="C05" [C05-4]="C05" [C06-3]="C06" [C06-4]="C06" [C08-3]="C08" [C08-4]="C08" [C10-3]="C10" [C10-4]="C10" [C18-3]="C16 C18" [C18-4]="C18"
 [C09-3]="C09" [C09-4]="C09 C08" [C12-3]="C12 C17" [C12-4]="C12" [C15-3]="C15" [C15-4]="C15" [C16-3]="C16" [C16-4]="C16" [C17-3]="C17" [C17-4]="C17 C09"
 [C19-3]="C19" [C19-4]="C19" [C20-3]="C20 C06" [C20-4]="C20"
)
for d in seeded/*/; do
  s=$(basename $d)
  [[ -n "$PFX" && "$s" != $PFX* ]] && continue
  for c in ${CHECKS[$s]:-${s%%-*}}; do
    out=$(${TRY:-tools/try_seed.sh} seeded/$s/patch.diff $c 2>&1)
    rc=$(echo "$out" | grep -o "check_exit=[0-9]*" | tail -1)
    first=$(echo "$out" | grep -m1 "failed obligation" | cut -c1-150)
    nfi=$(echo "$out" | grep -c "no-failing-input-found")
    tot=$(echo "$out" | grep -c "^VIOLATION")
    echo "$s on $c: $rc violations_printed=$tot (no-failing-input-found: $nfi) $first"
  done
done

#!/usr/bin/env python3
"""Regenerates /verif/MANIFEST.json from the table below and validates it against the schema."""
import json
import os
import sys

V = os.path.dirname(os.path.dirname(os.path.abspath(__file__)))

NA = {
    "C01": "containment of the query point in the published boundary lives in ~10^3 binary64 operations with sin/cos/acos/atan2, branch-selected spherical triangles and a 26-sample search; no contract dischargeable by the installed provers expresses it (DESIGN.md section 9); its integer conjunct (requested resolution, position in range) is proved under C05/C18",
    "C03": "edge-to-edge tiling equates float boundaries produced by different faces' transcendental projections; exact coincidence is outside SMT and interval reach (DESIGN.md section 9)",
    "C04": "cell area to 1e-6 is an integral of the float slice-and-dice projection over every cell; no decidable contract form (DESIGN.md section 9)",
    "C07": "the bound is a great-circle distance between projected centres (float geometry); only its lattice shadow is integer and that is not the stated property (DESIGN.md section 9)",
    "C11": "worst-case spherical distance/shape through the same float pipeline as C01 (DESIGN.md section 9)",
    "C13": "inverse-of-forward to 1e-11 for a two-dimensional transcendental map with branch-selected triangles: interval enclosures at usable box sizes are orders of magnitude wider than 1e-11 (DESIGN.md section 9)",
    "C14": "area preservation for arbitrary regions: same float map as C13, integrated (DESIGN.md section 9)",
}
NOT_BUILT = "not built yet (planned, DESIGN.md section 8); nothing is claimed until its check exists"

PYVC_NOTE = ("Trusted: the AST->SMT encoding of the accepted Python subset (DESIGN.md 3.1; differential self-check is testing), "
             "import-time tables read from the live module, z3/cvc5, no termination proof. Python ints are fixed-width bit-vectors "
             "with a proved no-wrap obligation per operation, so machine arithmetic is not assumed mathematical.")

CHECKS = {
    "C05": dict(
        engine="pyvc",
        technique="contract-based deductive verification: VCs generated from the AST of serialize/deserialize/get_resolution on every run, discharged by z3 (cvc5 fall-back) for all positions S at once per resolution; counter-models replayed natively",
        category="proof",
        text=("For every face, segment, resolution -1..30 and every position S < 2^64 (one symbolic bit-vector), the real bodies of serialize, "
              "get_resolution and deserialize are symbolically executed path by path and the statement's clauses are discharged as direct theorems over "
              "the composed code: range [1,2^64), get_resolution/deserialize recover the cell, re-encoding returns the id, distinct cells get distinct ids "
              "(both resolutions symbolic), a position that does not fit or a resolution above MAX_RESOLUTION raises ValueError. The id count clause is "
              "proved under C06/C20 (children of the world cell). Resolution 30 is a recorded known finding (serialize raises)."),
        design_ref="DESIGN.md section 8 / C05",
        note=PYVC_NOTE,
    ),
}


def main():
    props = [json.loads(l)["id"] for l in open(os.path.join(V, "properties.jsonl"))]
    checks = []
    for pid in props:
        if pid not in CHECKS:
            continue
        c = CHECKS[pid]
        checks.append({
            "property_id": pid,
            "quick_cmd": "python3-vt -m a5verif check %s --tier quick" % pid,
            "thorough_cmd": "python3-vt -m a5verif check %s --tier thorough" % pid,
            "evidence_file": "/verif/evidence/%s.json" % pid,
            "replay_cmd_template": "python3-vt -m a5verif replay {path}",
            "engine": c["engine"],
            "level_claimed": {"category": c["category"], "text": c["text"], "design_ref": c["design_ref"]},
            "level_note": c["note"],
            "technique": c["technique"],
        })
    na = []
    for pid in props:
        if pid in CHECKS:
            continue
        na.append({"property_id": pid, "reason": NA.get(pid, NOT_BUILT)})
    man = {
        "version": 1,
        "setup_cmd": "python3-vt -m a5verif.selfcheck --setup",
        "hooks": {
            "guard": "FELIXPALMER_A5_PY_VERIF",
            "enable": "none needed: contracts are sidecar files under /verif/a5verif/contracts and replay uses sys.settrace from outside; no hook commits exist in /repo",
            "baseline_off_cmd": "cd /repo && /venv/bin/python -m pytest -ra -q -p no:cacheprovider --timeout=900 --continue-on-collection-errors",
            "source_commits": [],
            "add_only": True,
        },
        "engines": [
            {"name": "pyvc", "path": "/verif/a5verif/pyvc", "serves_properties": [p for p in props if p in CHECKS and CHECKS[p]["engine"].startswith("pyvc")],
             "kind_free_text": "AST -> verification-condition generator (path-splitting symbolic execution with loop invariants, modular contracts, merged helper summaries) over the repository source re-read on every run; back ends z3 5.1 and cvc5"},
            {"name": "ivc", "path": "/verif/a5verif/ivc", "serves_properties": [p for p in props if p in CHECKS and "ivc" in CHECKS[p]["engine"]],
             "kind_free_text": "AST -> interval/Taylor evaluator (mpmath.iv, outward rounding) for straight-line binary64 code, branch-and-bound decision of real-interval contracts"},
            {"name": "fxc", "path": "/verif/a5verif/fxc", "serves_properties": [p for p in props if p in CHECKS and "fxc" in CHECKS[p]["engine"]],
             "kind_free_text": "frame / ownership (effect) checker over the static call graph of the public API with schedule replay"},
        ],
        "checks": checks,
        "not_applicable": na,
        "notes": "Technique family: contract-based deductive verification of the real code. Exit codes of every check: 0 held, 1 violation (VIOLATION line), 2 undecided, 3 checker error. Fix commits in /repo: see known_findings.json ('fixed').",
    }
    with open(os.path.join(V, "MANIFEST.json"), "w") as f:
        json.dump(man, f, indent=1)
    try:
        import jsonschema
        jsonschema.validate(man, json.load(open("/root/.vp/MANIFEST.schema.json")))
        print("MANIFEST.json valid: %d checks, %d not_applicable" % (len(checks), len(na)))
    except ImportError:
        print("written (jsonschema not available for validation)")


if __name__ == "__main__":
    main()

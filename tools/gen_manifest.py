#!/usr/bin/env python3
"""Regenerates /verif/MANIFEST.json from the table below and validates it against the schema."""
import json
import os
import sys

V = os.path.dirname(os.path.dirname(os.path.abspath(__file__)))

NA = {
    "C01": "containment of the query point in the published boundary lives in ~10^3 binary64 operations with sin/cos/acos/atan2, branch-selected spherical triangles and a 26-sample search; no contract dischargeable by the installed provers expresses it (DESIGN.md section 9); its integer conjunct (requested resolution, position in range) is proved under C05/C18",
    "C03": "edge-to-edge tiling equates float boundaries produced by different faces' transcendental projections; exact coincidence is outside SMT and interval reach (DESIGN.md section 9)",
    "C04": "cell area to 1e-6 is an integral of the float slice-and-dice projection over every cell; no decidable contract form (DESIGN.md section 9)",
    "C07": "the bound is a great-circle distance between projected centres (float geometry); only its lattice shadow is integer and that is not the stated property (DESIGN.md section 9)",
    "C11": "worst-case spherical distance/shape through the same float pipeline as C01 (DESIGN.md section 9)",
    "C13": "inverse-of-forward to 1e-11 for a two-dimensional transcendental map with branch-selected triangles: interval enclosures at usable box sizes are orders of magnitude wider than 1e-11 (DESIGN.md section 9)",
    "C14": "area preservation for arbitrary regions: same float map as C13, integrated (DESIGN.md section 9)",
}
NOT_BUILT = "not built yet (planned, DESIGN.md section 8); nothing is claimed until its check exists"


PYVC_NOTE = ("Trusted: the AST->SMT encoding of the accepted Python subset (DESIGN.md 3.1; differential self-check is testing), "
             "import-time tables read from the live module, z3/cvc5, no termination proof. Python ints are fixed-width bit-vectors "
             "with a proved no-wrap obligation per operation, so machine arithmetic is not assumed mathematical.")

CHECKS = {

    "C02": dict(
        engine="ivc+pyvc",
        technique="partial claim by contract-based verification: range contracts of to_spherical/to_lonlat/cell_to_lonlat decided by interval evaluation of the AST (ivc), quintant<->segment inverse by z3 over the real origin functions (pyvc); the containment conjuncts are not claimed",
        category="proof",
        text=("IN PART. Decided for every cell id: the value returned by cell_to_lonlat has longitude in [-180, 180] and latitude in [-90, 90] (1e-12 deg rounding slack at the "
              "poles) - from the ranges of atan2/acos in to_spherical, the data flow of cell_to_lonlat, and interval evaluation of to_lonlat and of the wrap in cell_to_lonlat, "
              "independent of the projection's float geometry; and the discrete skeleton of the id -> centre -> id chain: segment_to_quintant(quintant_to_segment(q, face)) = (q, same "
              "orientation) on all 12 faces (with C05 for the id code and C18 for the curve). NOT decided (float geometry, cf. C01): the centre lies strictly inside the cell's ring and "
              "lonlat_to_cell of it returns the cell."),
        design_ref="DESIGN.md section 8 / C02",
        note="Trusted: atan2/acos ranges and 1-ulp libm, mpmath.iv, the straight-line AST evaluator; that cell_to_lonlat returns at all (no exception inside the projection) is not claimed.",
    ),
    "C05": dict(
        engine="pyvc",
        technique="contract-based deductive verification: VCs generated from the AST of serialize/deserialize/get_resolution on every run, discharged by z3 (cvc5 fall-back) for all positions S at once per resolution; counter-models replayed natively",
        category="proof",
        text=("For every face, segment, resolution -1..30 and every position S < 2^64 (one symbolic bit-vector), the real bodies of serialize, "
              "get_resolution and deserialize are symbolically executed path by path and the statement's clauses are discharged as direct theorems over "
              "the composed code: range [1,2^64), get_resolution/deserialize recover the cell, re-encoding returns the id, distinct cells get distinct ids "
              "(both resolutions symbolic), a position that does not fit or a resolution above MAX_RESOLUTION raises ValueError. The id count clause is "
              "proved under C06/C20 (children of the world cell). Resolution 30 is a recorded known finding (serialize raises)."),
        design_ref="DESIGN.md section 8 / C05",
        note=PYVC_NOTE,
    ),
    "C06": dict(
        engine="pyvc",
        technique="contract-based deductive verification: loop invariant on cell_to_children, callee serialize by contract, VCs from the AST discharged by z3/cvc5 per (resolution, target) pair with face, segment and position symbolic",
        category="proof",
        text=("cell_to_children is verified against 'length = NCHILD and the k-th element is CHILDK(c,b,k)' with a loop invariant on its innermost loop (outer loops unrolled "
              "completely), cell_to_parent against PARENT_ID for every level pair, both over the real bodies with deserialize/get_resolution inlined; over these contracts the "
              "statement's clauses are discharged as lemmas for all positions at once: every listed child maps back to c (soundness), every cell whose ancestor is c is listed "
              "(completeness, explicit index witness), no repetition, parents compose, descendants of a level>=1 cell are a contiguous run of ids, out-of-order requests raise. "
              "Quick tier: child levels up to res+3 plus far pairs; thorough tier: every pair -1<=res<=b<=29."),
        design_ref="DESIGN.md section 8 / C06",
        note=PYVC_NOTE,
    ),
    "C08": dict(
        engine="pyvc",
        technique="contract-based deductive verification at two levels: compact's loops verified over the abstraction (mathematical ints, uninterpreted id functions, callees by contract, ghost coverage state, quantified invariants) and the merge/sibling lemmas plus callee contracts discharged at bit level from the real source",
        category="proof",
        text=("For an arbitrary probe cell x, 'some element of compact(X) is an ancestor of x' <=> 'some element of X is' is proved as postcondition of the real compact: outer and "
              "inner loop invariants with ghost state (emitted-covers-exactly-what-was-consumed), the innermost sibling scan unrolled, is_first_child / get_stride / cell_to_parent / "
              "get_resolution used through contracts, sorted(set(.)) through its builtin contract. The hypotheses used at loop level (merge lemma for 4, 5 and 12 siblings, sibling ids "
              "at stride distance, callee contracts) are discharged at bit level for every resolution 0..29 with all positions symbolic."),
        design_ref="DESIGN.md section 8 / C08",
        note=PYVC_NOTE + " Loop level: ints mathematical, RES/FIRSTC/STRIDEF/PAR1/ANCX uninterpreted; builtin contract of sorted(set()) assumed.",
    ),
    "C09": dict(
        engine="pyvc",
        technique="contract-based deductive verification at two levels: compact's loops verified over the abstraction (sorted by the sort key, pairwise unrelated, an unchanged pass skips no group) with callees by contract; the ordering lemmas it uses (adjacency, order, transfer, key injectivity, stride / first-child / sort-key contracts) discharged at bit level under the key re-read from the source; the uniqueness lemma A10 checked by the Lean 4 kernel (lean/A10.lean) with its hypotheses discharged as bridge obligations",
        category="proof",
        text=("For every list of valid, pairwise non-ancestral cells (duplicates allowed): the output of the real compact is strictly increasing in the key the code sorts by (so each cell "
              "occurs once), pairwise unrelated, and contains no complete contiguous sibling group (loop invariants on both loops; last pass unchanged => nothing skipped); a list lemma shows "
              "that in such a list a complete group that is a subset is contiguous, so no complete group of 4, 5 or 12 is left at all. The input is consumed only through sorted(set(cells)), "
              "so order and duplication cannot matter. Hypotheses used at loop level are discharged at bit level for every level r = 0..29 with all positions symbolic over the real "
              "_hierarchy_key, is_first_child, get_stride, cell_to_parent. Canonicity / idempotence then follow with C08 and lemma A10 (unique group-free antichain per region), which the Lean 4 kernel checks on every run "
              "(lean/A10.lean, theorem unique_R; its hypotheses U2, RU, HC are the bridge/* obligations of this check, U1 is C06/parent[res=r,to=r]); the final instantiation is on paper; "
              "a bounded native check of the whole predicate on a structured antichain pool runs as an additional labelled stand-in."),
        design_ref="DESIGN.md sections 8, 15 / C09",
        note=PYVC_NOTE + " Loop level: ints mathematical, RES/FIRSTC/STRIDEF/PAR1/KEYF/REL uninterpreted; builtin contract of sorted(set(), key) assumed (strictly increasing enumeration of the element set); A10 Lean-checked, its instantiation for a5 ids on paper.",
    ),
    "C10": dict(
        engine="pyvc",
        technique="contract-based deductive verification: uncompact's three loops verified with quantified invariants over ghost prefix sums (mathematical ints, callees by contract), callee contracts discharged at bit level",
        category="proof",
        text=("uncompact is verified for every list of valid ids of any length and every target: result length = sum of get_num_children, block k holds exactly the descendants of "
              "cells[k] in cell_to_children order (the cell itself at its own level), index safety of every store, ValueError iff some cell is finer than the target (and then nothing is "
              "returned), argument array unchanged at every exit. Callee contracts (get_resolution, get_num_children, cell_to_children) and the child-count facts are re-discharged at "
              "bit level in the same check."),
        design_ref="DESIGN.md section 8 / C10",
        note=PYVC_NOTE + " Loop level: ints mathematical, RES/NCHILD/CHILD uninterpreted, PS ghost prefix sum.",
    ),


    "C12": dict(
        engine="pyvc",
        technique="partial claim by contract-based verification in an abstracted-float ('opaque') mode: the real cell_to_boundary, split_edges, normalize_longitudes and _get_pentagon are executed symbolically with every float an unknown value and float comparisons non-deterministic, so the list / control structure (vertex count, closure, defaults, argument frame) is verified for all cells; the geometric conjuncts are not claimed",
        category="proof",
        text=("IN PART (shape conjuncts). For every cell of resolutions 0..29 (face, segment, position symbolic) and closed_ring in {True, False, omitted} x segments in {omitted, None, "
              "'auto', 1, 2, 3, 5, 6, 7, 10, 16} (more values in the thorough tier): len(cell_to_boundary) = (3 at resolution 1 else 5) * segments + (1 if closed_ring), with the default segments the integer >= 1 the code derives "
              "from the resolution alone and closed_ring defaulting to true; with closed_ring the last vertex is the first; the options dictionary is not modified; the world cell gives []. "
              "_get_pentagon's vertex count is proved per resolution (for an arbitrary anchor) and used as a contract. Quick tier: resolutions 0-3, 5-7, 12, 29 for the option matrix; "
              "thorough: all. NOT decided: simple, counter-clockwise, no 180-degree jumps, span < 180, corners independent of segments (float geometry); latitude range is C02's."),
        design_ref="DESIGN.md section 15 / C12",
        note=PYVC_NOTE + " Float mode 'opaque': loops steered by floats are havocked and left (termination not proved); DodecahedronProjection.inverse replaced by an opaque result.",
    ),
    "C15": dict(
        engine="ivc",
        technique="contract-based verification with a validated-numerics back end: the bodies of AuthalicProjection.forward/inverse are re-read from the AST and evaluated over second-order interval jets (mpmath.iv, outward rounding, running binary64 rounding-error bound); the real-interval contracts are decided by adaptive branch and bound; oddness by exact symbolic mirroring of the AST",
        category="proof",
        text=("For every real latitude in [-pi/2, pi/2]: |forward(phi) - asin(q(phi)/q(pi/2))| <= 1e-10 against the closed-form WGS84 authalic latitude (not the series), "
              "|inverse(forward(phi)) - phi| <= 1e-12, forward' > 0, each including the accumulated binary64 rounding error of the real code; forward and inverse are odd exactly "
              "(symbolic mirroring under the IEEE identities); 0 and +-pi/2 are fixed (three-point domain executed). The poles need no special treatment: order-0 enclosures close "
              "the last 1e-10 rad, Taylor boxes grade towards them."),
        design_ref="DESIGN.md sections 4, 8 / C15",
        note="Trusted: libm sin/cos within 1 ulp, odd/even exactly; mpmath.iv outward rounding; the straight-line AST evaluator (any other construct => undecided). 'Strictly increasing' is proved for the real-arithmetic function (derivative >= 0.995); adjacent binary64 inputs closer than the rounding error are not distinguished.",
    ),

    "C18": dict(
        engine="pyvc",
        technique="contract-based deductive verification of the curve functions, all loops unrolled at their concrete level with sidecar ghost assertions at the loop boundaries: the digit pipeline (shift / un-shift) over bit-vectors, the digit-recovery loop over real arithmetic for arbitrary digit strings (ghost tails, region claims proved bottom-up from the step lemma), the base case through get_pentagon_vertices / get_center / face_to_ij",
        category="proof",
        text=("A: for every level h = 1..28 and each (invert_j, flip_ij) class, the statements of _s_to_anchor that extract and shift the digits followed by the statements of _ij_to_s "
              "that un-shift and recombine them are the identity on all S < 4^h. B: for arbitrary shifted digits D in {0..3}^h the offset accumulated by _s_to_anchor plus any centre "
              "displacement allowed by C is turned back into exactly D by the first loop of _ij_to_s (flip state, input-pivot and digit asserted per iteration; tail regions proved bottom-up; "
              "the single step also proved stand-alone for all scales and flip states) - all levels in the thorough tier, levels 1..10,14,18,22,26,28 in the quick tier. C: for all six "
              "orientations, all levels and every inner (flips, k), the real wrappers, get_pentagon_vertices, get_center and face_to_ij map a symbolic anchor offset to offset + d with d at "
              "least 1/10 inside its half-unit triangle. A, B, C compose to: index -> anchor -> pentagon -> centre -> index is the identity, hence injective with 4^h distinct cells inside "
              "the segment triangle (top-level region claim). A bounded native round trip runs in addition (labelled). The prefix/nesting clause is not claimed."),
        design_ref="DESIGN.md sections 8, 15 / C18",
        note=PYVC_NOTE + " A6: parts B and C treat binary64 as exact real arithmetic (margin 1/10 proved, rounding < 1e-6 at |offset| <= 2^29).",
    ),
    "C19": dict(
        engine="pyvc",
        technique="contract-based deductive verification: u64_to_hex and hex_to_u64 executed symbolically from their AST with strings as vectors of symbolic characters, complete case split over the 16 digit counts, z3; builtin hex()/int(s,16)/slicing by stated contracts, cross-validated at run time",
        category="proof",
        text=("For every n in [0, 2^64) (16 cases by number of hex digits, n one symbolic bit-vector per case): u64_to_hex(n) has exactly the significant digits, each the lower-case "
              "nibble, no prefix/sign/padding; hex_to_u64(u64_to_hex(n)) == n; hex_to_u64 of the same digits with every character independently upper- or lower-case and 0/1/4 leading "
              "zeros is n. Injectivity of the text form follows from the left inverse. Bodies outside the modelled string subset fall back to a bounded native check (undecided unless it fails)."),
        design_ref="DESIGN.md section 8 / C19",
        note=PYVC_NOTE + " Assumed builtin contracts (A4): hex, int(s,16), constant slicing, upper/lower/zfill/format-x; validated against CPython on 2^19 values at run time.",
    ),
    "C16": dict(
        engine="fxc+pyvc",
        technique="frame/ownership contracts over the static call graph of the public API (sufficient condition: no write to shared state except structurally verified idempotent cache fills and a print-only counter), cache-index injectivity VCs by z3, failing schedules replayed with a line-level preemption harness",
        category="proof",
        text=("A sufficient frame condition for schedule independence is proved: for all 13 public functions, every store that can reach a module-level object is either a fill of a "
              "verified cache (only written by its fill function, grows only by empty slots, filled slot returned unchanged, slot value a function of the key, slot index injective - z3) "
              "or the CRS counter whose value only reaches print; every other write is to an object allocated in the activation. With the GIL this gives the sequential value under every "
              "interleaving (meta-theorem A8, on paper). Violations are replayed as concrete schedules (call B run inline at a line boundary of call A)."),
        design_ref="DESIGN.md sections 5, 8 / C16",
        note="Trusted: fxc's may-alias/may-write abstraction (flow- and field-insensitive, annotation-based element immutability), meta-theorem A8, no dynamic attribute writes, CPython bytecode-line atomicity.",
    ),
    "C17": dict(
        engine="fxc+pyvc",
        technique="frame/ownership contracts (no parameter mutated, result fresh or immutable, shared writes only functionally keyed idempotent caches, scratch defined before use), cache-index injectivity VCs, sequence replay against fresh interpreters",
        category="proof",
        text=("For all 13 public functions: F1 no parameter (including option dicts and input lists) is mutated, F2 the result is allocated in the call or immutable and no argument "
              "escapes into module state, F3 shared writes are verified cache fills keyed by a function of the arguments (slot index injective by z3) or the print-only counter, F4 any "
              "remaining module-level scratch object is completely overwritten before it is read in every function that names it. With deterministic binary64 arithmetic this makes each "
              "call a function of its arguments and import-time data (meta-theorem A9, on paper)."),
        design_ref="DESIGN.md sections 5, 8 / C17",
        note="Trusted: fxc's abstraction as for C16, meta-theorem A9, import-time tables never written after import is itself obligation F3/F5.",
    ),
    "C20": dict(
        engine="pyvc",
        technique="contract-based deductive verification of get_num_cells / get_num_children for symbolic resolutions, children-count lemma, complete concrete execution of cell_area over its finite domain",
        category="proof",
        text=("get_num_cells(r) = NCELLS(r) and get_num_children(a,b) = NCHILD(a,b) for symbolic a,b in -1..30 over the real bodies; NCELLS(a)*NCHILD(a,b) = NCELLS(b); "
              "len(cell_to_children(c,b)) = NCHILD(res c, b) and no repetition via the C06 children contract (re-discharged here, including the world cell); cell_area(r)*count within "
              "2 ulp of the sphere area and strictly decreasing for all r in 0..30 by executing the real float code on the whole finite domain."),
        design_ref="DESIGN.md section 8 / C20",
        note=PYVC_NOTE,
    ),
}


def main():
    props = [json.loads(l)["id"] for l in open(os.path.join(V, "properties.jsonl"))]
    checks = []
    for pid in props:
        if pid not in CHECKS:
            continue
        c = CHECKS[pid]
        checks.append({
            "property_id": pid,
            "quick_cmd": "python3-vt -m a5verif check %s --tier quick" % pid,
            "thorough_cmd": "python3-vt -m a5verif check %s --tier thorough" % pid,
            "evidence_file": "/verif/evidence/%s.json" % pid,
            "replay_cmd_template": "python3-vt -m a5verif replay {path}",
            "engine": c["engine"],
            "level_claimed": {"category": c["category"], "text": c["text"], "design_ref": c["design_ref"]},
            "level_note": c["note"],
            "technique": c["technique"],
        })
    na = []
    for pid in props:
        if pid in CHECKS:
            continue
        na.append({"property_id": pid, "reason": NA.get(pid, NOT_BUILT)})
    man = {
        "version": 1,
        "setup_cmd": "python3-vt -m a5verif.selfcheck --setup",
        "hooks": {
            "guard": "FELIXPALMER_A5_PY_VERIF",
            "enable": "none needed: contracts are sidecar files under /verif/a5verif/contracts and replay uses sys.settrace from outside; no hook commits exist in /repo",
            "baseline_off_cmd": "cd /repo && /venv/bin/python -m pytest -ra -q -p no:cacheprovider --timeout=900 --continue-on-collection-errors",
            "source_commits": [],
            "add_only": True,
        },
        "engines": [
            {"name": "pyvc", "path": "/verif/a5verif/pyvc", "serves_properties": [p for p in props if p in CHECKS and CHECKS[p]["engine"].startswith("pyvc")],
             "kind_free_text": "AST -> verification-condition generator (path-splitting symbolic execution with loop invariants, modular contracts, merged helper summaries) over the repository source re-read on every run; back ends z3 5.1 and cvc5"},
            {"name": "ivc", "path": "/verif/a5verif/ivc", "serves_properties": [p for p in props if p in CHECKS and "ivc" in CHECKS[p]["engine"]],
             "kind_free_text": "AST -> interval/Taylor evaluator (mpmath.iv, outward rounding) for straight-line binary64 code, branch-and-bound decision of real-interval contracts"},
            {"name": "fxc", "path": "/verif/a5verif/fxc", "serves_properties": [p for p in props if p in CHECKS and "fxc" in CHECKS[p]["engine"]],
             "kind_free_text": "frame / ownership (effect) checker over the static call graph of the public API with schedule replay"},
        ],
        "checks": checks,
        "not_applicable": na,
        "notes": "Technique family: contract-based deductive verification of the real code. Exit codes of every check: 0 held, 1 violation (VIOLATION line), 2 undecided, 3 checker error. Fix commits in /repo: see known_findings.json ('fixed').",
    }
    with open(os.path.join(V, "MANIFEST.json"), "w") as f:
        json.dump(man, f, indent=1)
    try:
        import jsonschema
        jsonschema.validate(man, json.load(open("/root/.vp/MANIFEST.schema.json")))
        print("MANIFEST.json valid: %d checks, %d not_applicable" % (len(checks), len(na)))
    except ImportError:
        print("written (jsonschema not available for validation)")


if __name__ == "__main__":
    main()

#!/bin/bash
# Behaviour-preserving refactorings (written by an independent sub-agent; /verif/benign/*.diff) must never produce a
# VIOLATION: exit 0 (still proved) or exit 2 (undecided: the contract no longer matches the shape of the code) only.
cd /verif
PFX=${1:-}
declare -A CHECKS=(
 [benign-1]="C05 C06 C20" [benign-2]="C06 C10 C20" [benign-3]="C10" [benign-4]="C08 C09" [benign-5]="C18 C17" [benign-6]="C19"
 [benign-7]="C02 C12 C17 C16" [benign-8]="C20 C10" [benign-9]="C12 C17" [benign-10]="C12 C17 C16"
)
for p in benign/*.diff; do
  s=$(basename $p .diff)
  [[ -n "$PFX" && "$s" != $PFX ]] && continue
  for c in ${CHECKS[$s]}; do
    out=$(tools/try_seed_wt.sh $p $c 2>&1)
    rc=$(echo "$out" | grep -o "check_exit=[0-9]*" | tail -1)
    tot=$(echo "$out" | grep -c "^VIOLATION")
    und=$(echo "$out" | grep -m1 -E "UNDECIDED|undecided" | cut -c1-160)
    echo "$s on $c: $rc violations_printed=$tot $und"
  done
done

#!/bin/bash
# usage: try_seed_wt.sh <patch.diff> <ID> [tier] -- like try_seed.sh, but in a scratch worktree (A5VERIF_REPO), /repo untouched.
set -u
P=$(readlink -f "$1"); ID=$2; TIER=${3:-quick}
WT=$(mktemp -d /tmp/seedrun.XXXXXX); rmdir "$WT"
git -C /repo worktree add -q --detach "$WT" HEAD || exit 3
git -C "$WT" apply "$P" || { echo APPLY-FAILED; git -C /repo worktree remove --force "$WT"; exit 2; }
cd /verif && A5VERIF_REPO="$WT" python3-vt -m a5verif check $ID --tier $TIER 2>&1 | cut -c1-600 | grep -v "^KNOWN" ; RC=${PIPESTATUS[0]}
git -C /repo worktree remove --force "$WT"
echo "check_exit=$RC"

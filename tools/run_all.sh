#!/bin/bash
# Runs every registered check (quick by default) against /repo and rewrites /verif/evidence/*.json
TIER=${1:-quick}
cd /verif
for id in C02 C05 C06 C08 C09 C10 C12 C15 C16 C17 C18 C19 C20; do
  python3-vt -m a5verif check $id --tier $TIER 2>&1 | grep -E "RESULT|VIOLATION|UNDECIDED|CHECKER|KNOWN" | cut -c1-200
done

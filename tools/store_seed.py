#!/usr/bin/env python3
"""usage: store_seed.py <agent change dir> <PROP> <k>  -- confirm with confirm_seed.sh, then store under seeded/<PROP>-<k>/"""
import json, os, re, shutil, subprocess, sys
src, prop, k = sys.argv[1], sys.argv[2], sys.argv[3]
out = subprocess.run(["bash", "/verif/tools/confirm_seed.sh", src], capture_output=True, text=True).stdout.strip()
print(out)
m = re.search(r"clean_demo_exit=(\d+) patched_demo_exit=(\d+) tests='([^']*)'", out)
if not m or m.group(1) != "0" or m.group(2) == "0" or "passed" not in m.group(3) or "failed" in m.group(3):
    print("NOT CONFIRMED"); sys.exit(1)
dst = "/verif/seeded/%s-%s" % (prop, k)
os.makedirs(dst, exist_ok=True)
for f in ("patch.diff", "demo.py"):
    shutil.copy(os.path.join(src, f), os.path.join(dst, f))
am = {}
try:
    am = json.load(open(os.path.join(src, "meta.json")))
except Exception as e:
    am = {"unreadable": str(e)}
files = sorted(set(re.findall(r"^\+\+\+ b/(\S+)", open(os.path.join(src, "patch.diff")).read(), re.M)))
meta = {"property": prop, "breaks": am.get("summary") or am.get("breaks") or am.get("what") or "", "needs_to_manifest": am.get("needs_to_manifest") or am.get("trigger") or "",
        "files": files, "origin": "written by an independent sub-agent given only the property text and a scratch worktree",
        "confirmed_by_me": {"how": "tools/confirm_seed.sh in a fresh scratch worktree of /repo HEAD: demo.py exit 0 unpatched; patch applied: pytest passes, demo.py exit non-zero; worktree removed",
                            "tests_with_patch": m.group(3).strip("= ").strip(), "demo_unpatched_exit": int(m.group(1)), "demo_patched_exit": int(m.group(2))},
        "agent_meta": am}
json.dump(meta, open(os.path.join(dst, "meta.json"), "w"), indent=1)
print("stored", dst)

"""Native replays (run under /venv/bin/python): property-level predicates evaluated on the real code for the
inputs of a counter-model, followed - when the model is a mid-execution state rather than an input - by a small
bounded witness search around it.  A search that finds nothing proves nothing and is never counted."""
import itertools
import random


def dispatch(kind, payload):
    model = payload.get("model") or {}
    if kind == "children":
        return r_c06(model)
    if kind == "parent":
        return r_c06(model, prefix="x")
    if kind == "cellinfo":
        return r_c20(model)
    if kind == "uncompact":
        return r_c10(model, payload)
    if kind == "compact":
        return r_compact(model, payload)
    if kind == "hex":
        return r_hex(model)
    if kind == "hilbert":
        return r_hilbert(model)
    if kind == "boundary":
        return r_boundary(model)
    return {"confirmed": False, "note": "no native replay for kind %s" % kind}


# ------------------------------------------------------------------------------------------------ helpers
def _mk(o, g, S, r):
    from a5.core.origin import origins
    from a5.core.utils import A5Cell
    return A5Cell(origin=origins[o], segment=g, S=S, resolution=r)


def _valid(o, g, S, r):
    return 0 <= o < 12 and 0 <= g < 5 and -1 <= r <= 29 and 0 <= S < (1 if r < 2 else 4 ** (r - 1))


def _enc(o, g, S, r):
    from a5.core import serialization as s
    return s.serialize(_mk(o, g, S, r))


def _nchild(a, b):
    def nc(r):
        return 0 if r < 0 else 12 if r == 0 else 60 * 4 ** (r - 1)
    if b < a:
        return 0
    if b == a:
        return 1
    return nc(b) if a == -1 else nc(b) // nc(a)


# ------------------------------------------------------------------------------------------------ C06
def c06_failures(o, g, S, r, maxdepth=3):
    """Property C06 evaluated natively for the cell (o, g, S, r); returns a list of failure descriptions."""
    from a5.core import serialization as s
    out = []
    try:
        cid = _enc(o, g, S, r)
    except Exception as e:
        return ["serialize raised %s" % e]
    # parents
    parents = {}
    for a in range(-1, r + 1):
        try:
            p = s.cell_to_parent(cid, a)
        except Exception as e:
            out.append("cell_to_parent(%#x, %d) raised %s: %s" % (cid, a, type(e).__name__, e))
            continue
        parents[a] = p
        if s.get_resolution(p) != a:
            out.append("cell_to_parent(%#x, %d) = %#x has resolution %d" % (cid, a, p, s.get_resolution(p)))
    for a in parents:
        for m in parents:
            if a <= m:
                try:
                    pp = s.cell_to_parent(parents[m], a)
                except Exception as e:
                    out.append("cell_to_parent(cell_to_parent(%#x, %d), %d) raised %s" % (cid, m, a, e))
                    continue
                if pp != parents[a]:
                    out.append("parent does not compose: parent(parent(%#x,%d),%d)=%#x but parent(%#x,%d)=%#x"
                               % (cid, m, a, pp, cid, a, parents[a]))
    if r >= 0:
        try:
            if s.cell_to_parent(cid) != parents.get(r - 1):
                out.append("default cell_to_parent(%#x) differs from cell_to_parent(.., %d)" % (cid, r - 1))
        except Exception as e:
            out.append("default cell_to_parent(%#x) raised %s" % (cid, e))
    for a in (r + 1, r + 2, -2, -5):
        if a > 29 + 1 or (a >= -1 and a <= r):
            continue
        try:
            v = s.cell_to_parent(cid, a)
            out.append("cell_to_parent(%#x, %d) returned %#x instead of raising" % (cid, a, v))
        except ValueError:
            pass
        except Exception as e:
            out.append("cell_to_parent(%#x, %d) raised %s, not ValueError" % (cid, a, type(e).__name__))
    # children
    for b in range(r, min(r + maxdepth, 29) + 1):
        try:
            ch = s.cell_to_children(cid, b)
        except Exception as e:
            out.append("cell_to_children(%#x, %d) raised %s: %s" % (cid, b, type(e).__name__, e))
            continue
        if len(ch) != _nchild(r, b):
            out.append("cell_to_children(%#x, %d) returned %d cells, expected %d" % (cid, b, len(ch), _nchild(r, b)))
        if len(set(ch)) != len(ch):
            out.append("cell_to_children(%#x, %d) repeats a cell" % (cid, b))
        for x in ch[:4096]:
            try:
                if s.get_resolution(x) != b:
                    out.append("child %#x of %#x has resolution %d, expected %d" % (x, cid, s.get_resolution(x), b))
                    break
                if s.cell_to_parent(x, r) != cid:
                    out.append("child %#x of %#x at level %d maps back to %#x" % (x, cid, b, s.cell_to_parent(x, r)))
                    break
            except Exception as e:
                out.append("child %#x of %#x: %s" % (x, cid, e))
                break
        if r >= 1 and ch and b >= 1:
            stride = (1 << 58) if b < 2 else 1 << (2 * (30 - b))
            if any(ch[i + 1] - ch[i] != stride for i in range(min(len(ch), 4096) - 1)):
                out.append("children of %#x at level %d are not a contiguous ascending run" % (cid, b))
    if r + 1 <= 29:
        try:
            if s.cell_to_children(cid) != s.cell_to_children(cid, r + 1):
                out.append("default cell_to_children(%#x) differs from level %d" % (cid, r + 1))
        except Exception as e:
            out.append("default cell_to_children(%#x) raised %s" % (cid, e))
    for b in (r - 1, r - 3, 31, 40):
        if b < r or b > 30:
            try:
                v = s.cell_to_children(cid, b)
                out.append("cell_to_children(%#x, %d) returned %d cells instead of raising" % (cid, b, len(v)))
            except ValueError:
                pass
            except Exception as e:
                out.append("cell_to_children(%#x, %d) raised %s, not ValueError" % (cid, b, type(e).__name__))
    return out


def c06_completeness(o, g, S, r, d):
    """d = (o, g, S, b): if its ancestor at level r is the cell, it must be listed among the children."""
    from a5.core import serialization as s
    if not _valid(*d) or d[3] < r or d[3] - r > 6:
        return []
    cid, did = _enc(o, g, S, r), _enc(*d)
    try:
        if s.cell_to_parent(did, r) == cid and did not in s.cell_to_children(cid, d[3]):
            return ["%#x has ancestor %#x at level %d but is not in cell_to_children(%#x, %d)" % (did, cid, r, cid, d[3])]
        if s.cell_to_parent(did, r) != cid and did in s.cell_to_children(cid, d[3]):
            return ["%#x is listed in cell_to_children(%#x, %d) but its ancestor is %#x" % (did, cid, d[3], s.cell_to_parent(did, r))]
    except Exception as e:
        return ["completeness check raised %s" % e]
    return []


def candidate_cells(seed_cells, rng):
    seen = set()
    for c in seed_cells:
        if c is not None and _valid(*c) and c not in seen:
            seen.add(c)
            yield c
    # neighbourhood of the model values, then a structured pool
    for c in list(seen):
        o, g, S, r = c
        for dr in (0, -1, 1):
            rr = r + dr
            if not (-1 <= rr <= 29):
                continue
            lim = 1 if rr < 2 else 4 ** (rr - 1)
            for SS in {0, 1, 2, 3, S % lim, (S >> 2) % lim, (S * 4) % lim, lim - 1, lim // 2}:
                for oo in {o, 0, 11}:
                    for gg in {g, 0, 4}:
                        cc = (oo, gg, SS, rr)
                        if _valid(*cc) and cc not in seen:
                            seen.add(cc)
                            yield cc
    for r in list(range(-1, 8)) + [13, 20, 28, 29]:
        lim = 1 if r < 2 else 4 ** (r - 1)
        for o in range(12):
            for g in range(5):
                for S in {0, 1, 2, 3, lim - 1, rng.randrange(lim)}:
                    cc = (o, g, S, r)
                    if _valid(*cc) and cc not in seen:
                        seen.add(cc)
                        yield cc


def r_c06(model, prefix="c"):
    rng = random.Random(0)

    def cell(tag):
        try:
            return (model[tag + "_o"], model[tag + "_g"], model[tag + "_S"], model[tag + "_r"])
        except KeyError:
            return None

    c = cell(prefix) or cell("c") or cell("x")
    d = cell("d")
    tried = 0
    for cc in itertools.islice(candidate_cells([c], rng), 1500):
        tried += 1
        f = c06_failures(*cc)
        if d is not None and cc == c:
            f += c06_completeness(*cc, d)
        if f:
            return {"confirmed": True, "input": {"face": cc[0], "segment": cc[1], "S": cc[2], "resolution": cc[3]},
                    "observed": f[:5], "from_model": cc == c, "cells_tried": tried}
    return {"confirmed": False, "note": "no failing input among %d candidate cells around the model" % tried}


# ------------------------------------------------------------------------------------------------ C20
def r_c20(model):
    from a5.core import cell_info as ci
    from a5.core import serialization as s
    import math
    f = []

    def nc(r):
        return 0 if r < 0 else 12 if r == 0 else 60 * 4 ** (r - 1)
    for r in range(-1, 31):
        if ci.get_num_cells(r) != nc(r):
            f.append("get_num_cells(%d) = %d, expected %d" % (r, ci.get_num_cells(r), nc(r)))
    for a in range(-1, 30):
        for b in range(-1, 30):
            if ci.get_num_children(a, b) != _nchild(a, b):
                f.append("get_num_children(%d, %d) = %d, expected %d" % (a, b, ci.get_num_children(a, b), _nchild(a, b)))
    for r in range(0, 7):
        n = len(set(s.cell_to_children(0, r)))
        if n != ci.get_num_cells(r):
            f.append("expanding the world cell to %d gives %d distinct cells, get_num_cells = %d" % (r, n, ci.get_num_cells(r)))
    area = 4 * math.pi * 6371007.2 * 6371007.2
    prev = None
    for r in range(0, 31):
        a = ci.cell_area(r)
        if abs(a * nc(r) - area) > 4 * math.ulp(area):
            f.append("cell_area(%d) * count = %r, sphere area %r" % (r, a * nc(r), area))
        if prev is not None and not a < prev:
            f.append("cell_area not strictly decreasing at %d" % r)
        prev = a
    return {"confirmed": bool(f), "observed": f[:6]}


# ------------------------------------------------------------------------------------------------ C10 / C08 / C09
def r_c10(model, payload):
    from a5verif import replay_compact
    return replay_compact.r_uncompact(model, payload)


def r_compact(model, payload):
    from a5verif import replay_compact
    return replay_compact.r_compact(model, payload)


# ------------------------------------------------------------------------------------------------ C19
def r_hex(model):
    from a5.core.hex import hex_to_u64, u64_to_hex
    cands = []
    if isinstance(model.get("n"), int):
        cands.append(model["n"])
    for b in range(0, 65):
        cands += [(1 << b) - 1, 1 << b, (1 << b) + 1]
    for lane in range(4):
        for v in (1, 0xF, 0x10, 0xABC, 0xFFFF, 0x8000, 0x0F0F):
            cands += [v << (16 * lane), (0xFFFFFFFFFFFFFFFF & ~(0xFFFF << (16 * lane))) | (v << (16 * lane))]
    import random
    rng = random.Random(0)
    cands += [rng.getrandbits(rng.randrange(1, 65)) for _ in range(3000)]
    seen = set()
    for n in cands:
        if not (0 <= n < 2 ** 64) or n in seen:
            continue
        seen.add(n)
        want = "%x" % n
        try:
            t = u64_to_hex(n)
            if t != want:
                return {"confirmed": True, "input": n, "observed": "u64_to_hex -> %r" % (t,), "expected": want}
            for s in (t, t.upper(), "0" + t, "0000" + t, "".join(c.upper() if i % 2 else c for i, c in enumerate(t))):
                v = hex_to_u64(s)
                if v != n:
                    return {"confirmed": True, "input": n, "observed": "hex_to_u64(%r) -> %r" % (s, v), "expected": n}
        except Exception as e:
            return {"confirmed": True, "input": n, "observed": "raised %s: %s" % (type(e).__name__, e), "expected": want}
    return {"confirmed": False, "note": "no failing value among %d candidates" % len(seen)}


# ------------------------------------------------------------------------------------------------ C18
def hilbert_cases(model):
    import random
    rng = random.Random(0)
    ORI = ("uv", "vu", "uw", "wu", "vw", "wv")
    if isinstance(model.get("S"), int) and isinstance(model.get("h"), int):
        for o in ORI:
            yield o, model["h"], model["S"]
    # small levels exhaustively
    for h in range(1, 6):
        for o in ORI:
            for S in range(4 ** h):
                yield o, h, S
    # directed digit patterns and random indices at every level (in this order: low levels first, so that
    # state kept between calls is exercised across levels)
    for h in range(1, 29):
        n = 4 ** h
        pats = {0, 1, 2, 3, 11, 12, 21, n - 1, n - 2, n // 2, n // 2 - 1, n // 4, 3 * n // 4, n // 3, 2 * n // 3, (n - 1) // 3}
        for d in range(4):
            pats.add(sum(d * 4 ** i for i in range(h)))
            for e in range(4):
                pats.add(e * 4 ** (h - 1) + sum(d * 4 ** i for i in range(h - 1)))
                if h >= 2:
                    pats.add(e * 4 ** (h - 2) + sum(d * 4 ** i for i in range(h - 2)))
        for _ in range(12):
            pats.add(rng.randrange(n))
        for o in ORI:
            for S in sorted(p for p in pats if 0 <= p < n):
                yield o, h, S


def r_hilbert(model):
    """index -> anchor -> pentagon -> centre -> index, as the library composes them (quintant 0)."""
    from a5.core.hilbert import s_to_anchor, ij_to_s
    from a5.core.tiling import get_pentagon_vertices
    from a5.core.coordinate_transforms import face_to_ij
    tried = 0
    seen_cells = {}
    for o, h, S in hilbert_cases(model or {}):
        tried += 1
        try:
            anchor = s_to_anchor(S, h, o)
            pent = get_pentagon_vertices(h, 0, anchor)
            c = pent.get_center()
            scale = 2 ** h
            ij = face_to_ij((c[0] * scale, c[1] * scale))
            back = ij_to_s(ij, h, o)
        except Exception as e:
            return {"confirmed": True, "input": {"orientation": o, "level": h, "S": S}, "observed": "raised %s: %s" % (type(e).__name__, e)}
        if back != S:
            return {"confirmed": True, "input": {"orientation": o, "level": h, "S": S}, "observed": "ij_to_s(centre) = %d" % back, "expected": S,
                    "calls_tried": tried}
        if h <= 5:
            key = (o, h, round(ij[0] * 3), round(ij[1] * 3), anchor.k, tuple(anchor.flips))
            if key in seen_cells and seen_cells[key] != S:
                return {"confirmed": True, "input": {"orientation": o, "level": h, "S": [seen_cells[key], S]}, "observed": "two indices give the same cell"}
            seen_cells[key] = S
    return {"confirmed": False, "note": "no failing index among %d (orientation, level, index) cases" % tried}


# ------------------------------------------------------------------------------------------------ C12 (shape conjuncts)
def r_boundary(model):
    import a5
    import copy
    cells = []
    for r in range(0, 4):
        cs = a5.cell_to_children(0, r)
        cells += cs[:: max(1, len(cs) // 14)]
    for p, r in (((12.3, 45.6), 9), ((-170.2, -20.1), 15), ((3.0, 89.0), 29), ((100.0, 0.0), 6), ((179.99, 10.0), 7)):
        cells.append(a5.lonlat_to_cell(p, r))
    opts = []
    for closed in ("omitted", True, False):
        for seg in (1, "omitted", None, "auto", 2, 3, 5, 6, 7, 10, 13, 16):
            o = {}
            if closed != "omitted":
                o["closed_ring"] = closed
            if seg != "omitted":
                o["segments"] = seg
            opts.append(o)
    tried = 0
    for sweep in range(2):
        for c in cells:
            r = a5.get_resolution(c)
            n = 3 if r == 1 else 5
            for o in (opts if sweep == 0 else list(reversed(opts))):
                arg = copy.deepcopy(o)
                tried += 1
                try:
                    ring = a5.cell_to_boundary(c, arg if arg or sweep else None)
                except Exception as e:
                    return {"confirmed": True, "input": [hex(c), o], "observed": "raised %s: %s" % (type(e).__name__, e)}
                seg = o.get("segments", "auto")
                if seg in ("auto", None):
                    seg = max(1, int(2 ** (6 - r))) if r <= 6 else 1
                closed = o.get("closed_ring", True)
                want = n * seg + (1 if closed else 0)
                if len(ring) != want:
                    return {"confirmed": True, "input": [hex(c), o], "observed": "%d vertices" % len(ring), "expected": want, "calls_tried": tried}
                if closed and ring[0] != ring[-1]:
                    return {"confirmed": True, "input": [hex(c), o], "observed": "ring not closed"}
                if arg != o:
                    return {"confirmed": True, "input": [hex(c), o], "observed": "options modified to %r" % (arg,)}
    if a5.cell_to_boundary(0) != []:
        return {"confirmed": True, "input": "world cell", "observed": a5.cell_to_boundary(0)}
    return {"confirmed": False, "note": "no shape violation among %d cell_to_boundary calls" % tried}

"""Setup / self-check: everything the checks need is on disk (offline)."""
import importlib
import os
import subprocess
import sys

from . import REPO, VERIF


def main():
    ok = True
    for m in ("z3", "mpmath"):
        try:
            importlib.import_module(m)
        except Exception as e:
            print("missing module %s: %s" % (m, e))
            ok = False
    if not os.path.isdir(os.path.join(REPO, "a5")):
        print("repository not found at %s" % REPO)
        ok = False
    p = subprocess.run(["/venv/bin/python", "-c", "import a5; print(a5.__file__)"], capture_output=True, text=True,
                       env=dict(os.environ, PYTHONPATH=REPO))
    if p.returncode != 0:
        print("cannot import a5 under /venv/bin/python: %s" % p.stderr[-300:])
        ok = False
    os.makedirs(os.path.join(VERIF, "evidence"), exist_ok=True)
    print("setup ok" if ok else "setup FAILED")
    return 0 if ok else 3


if __name__ == "__main__":
    sys.exit(main())

"""Setup / self-check.

  --setup          everything the checks need is on disk (offline) + a short differential run
  --differential   translator differential check (DESIGN 7.3): the symbolic interpreter is run on random CONCRETE
                   inputs of the functions under contract and must agree with CPython executing the same source,
                   including the type of a raised exception.  This is testing of the verifier, not proof.
"""
import importlib
import math
import os
import random
import subprocess
import sys
import time

from . import REPO, VERIF


def differential(n=150, seed=0, verbose=False):
    sys.path.insert(0, REPO)
    from .pyvc.src import Repo, ModuleInfo
    from .pyvc.ctx import Explorer, Settings, Ctx, PyRaise
    from .pyvc.interp import Interp
    from .pyvc.values import Obj, Unsupported
    from .contracts.registry import registry
    import a5
    from a5.core import serialization as ser, cell_info, hex as hx, compact as cp, hilbert as hb
    from a5.core.origin import origins, quintant_to_segment, segment_to_quintant
    from .pyvc.contracts import Registry
    plain = Registry()
    rng = random.Random(seed)
    repo = Repo(REPO)
    specs = ModuleInfo(None, "specs", os.path.join(VERIF, "a5verif", "contracts", "specs.py"))

    def sym_run(qual, args, float_mode="concrete"):
        ex = Explorer(Settings(float_mode=float_mode))
        ctx = Ctx(ex, [], 0)
        it = Interp(ctx, repo, plain, specs)        # no contracts: the bodies themselves are interpreted
        try:
            return ("ok", it.call(qual, *args))
        except PyRaise as e:
            return ("raise", e.exc)

    def nat_run(fn, args):
        try:
            return ("ok", fn(*args))
        except Exception as e:
            return ("raise", type(e).__name__)

    def rnd_cell():
        r = rng.choice([-1, 0, 1, 2, 3, 7, 15, 29, 30, 31])
        lim = 1 if r < 2 else 4 ** (r - 1)
        S = rng.choice([0, 0, rng.randrange(max(1, lim)), max(0, lim - 1), lim, lim + 5])
        return rng.randrange(12), rng.randrange(5), S, r

    def norm(v):
        if hasattr(v, "_fields"):
            return ("obj", type(v).__name__, (("first_quintant", v.first_quintant), ("id", v.id)))
        if isinstance(v, Obj):
            return ("obj", v.cls, tuple(sorted((k, norm(x)) for k, x in v.attrs.items() if k in ("id", "first_quintant", "k", "offset", "flips"))))
        if isinstance(v, dict):
            return tuple(sorted((k, norm(x)) for k, x in v.items()))
        if isinstance(v, (list, tuple)):
            return tuple(norm(x) for x in v)
        if hasattr(v, "_fields"):
            return ("obj", type(v).__name__, (("first_quintant", v.first_quintant), ("id", v.id)))
        if hasattr(v, "__dict__") and not callable(v):
            return ("obj", type(v).__name__, tuple(sorted((k, norm(x)) for k, x in vars(v).items() if k in ("k", "offset", "flips"))))
        if isinstance(v, float):
            return round(v, 9)
        return v
    cases = 0
    bad = []
    t0 = time.time()

    def check(qual, fn, sargs, nargs, fm="concrete"):
        nonlocal cases
        cases += 1
        try:
            a = sym_run(qual, sargs, fm)
        except Unsupported as e:
            bad.append((qual, "UNSUPPORTED on a concrete input: %s" % e))
            return
        b = nat_run(fn, nargs)
        if (a[0], norm(a[1])) != (b[0], norm(b[1])):
            bad.append((qual, repr(nargs)[:120], "interpreter %r" % (norm(a[1]),), "CPython %r" % (norm(b[1]),)))
    ids = [0] + ser.cell_to_children(0, 0) + ser.cell_to_children(0, 1)[:20] + ser.cell_to_children(ser.cell_to_children(0, 0)[3], 3)[:30]
    for _ in range(n):
        o, g, S, r = rnd_cell()
        ncell = {"origin": origins[o], "segment": g, "S": S, "resolution": r}
        ex = Explorer(Settings())
        ctx = Ctx(ex, [], 0)
        it0 = Interp(ctx, repo, registry(), specs)
        so = it0.module_global(repo.module("a5.core.origin"), "origins")
        scell = {"origin": so[o], "segment": g, "S": S, "resolution": r}
        check("a5.core.serialization.serialize", ser.serialize, [scell], [ncell])
        idv = rng.choice(ids) if rng.random() < 0.5 else None
        if idv is None:
            try:
                idv = ser.serialize({"origin": origins[o], "segment": g, "S": S % (1 if r < 2 else 4 ** (r - 1)) if -1 <= r <= 29 else 0,
                                     "resolution": min(max(r, -1), 29)})
            except Exception:
                idv = rng.choice(ids)
        check("a5.core.serialization.get_resolution", ser.get_resolution, [idv], [idv])
        check("a5.core.serialization.deserialize", ser.deserialize, [idv], [idv])
        rr = ser.get_resolution(idv)
        for a_ in (rr - 1, rng.randrange(-2, 31)):
            check("a5.core.serialization.cell_to_parent", ser.cell_to_parent, [idv, a_], [idv, a_])
        b_ = rng.choice([rr, rr + 1, rr + 2, rr - 1, 31])
        if b_ - rr <= 2:
            check("a5.core.serialization.cell_to_children", ser.cell_to_children, [idv, b_], [idv, b_])
        if rr >= 0:
            check("a5.core.serialization.is_first_child", ser.is_first_child, [idv, rr], [idv, rr])
            check("a5.core.serialization.get_stride", ser.get_stride, [rr], [rr])
        a2, b2 = rng.randrange(-2, 32), rng.randrange(-2, 32)
        check("a5.core.cell_info.get_num_children", cell_info.get_num_children, [a2, b2], [a2, b2])
        check("a5.core.cell_info.get_num_cells", cell_info.get_num_cells, [a2], [a2])
        check("a5.core.cell_info.cell_area", cell_info.cell_area, [max(a2, -1)], [max(a2, -1)])
        v = rng.getrandbits(rng.randrange(1, 65))
        check("a5.core.hex.u64_to_hex", hx.u64_to_hex, [v], [v])
        t = ("%x" % v) if rng.random() < 0.5 else ("%X" % v).zfill(rng.randrange(0, 20))
        check("a5.core.hex.hex_to_u64", hx.hex_to_u64, [t], [t])
        if hasattr(cp, "_hierarchy_key"):
            check("a5.core.compact._hierarchy_key", cp._hierarchy_key, [idv], [idv])
        # small compact / uncompact inputs
        base = rng.choice(ids[1:13])
        kids = ser.cell_to_children(base, 1) + ser.cell_to_children(ser.cell_to_children(base, 1)[0], 2)
        lst = [rng.choice(kids + ids[1:13]) for _ in range(rng.randrange(0, 9))]
        check("a5.core.compact.compact", cp.compact, [list(lst)], [list(lst)])
        tt = rng.randrange(0, 4)
        check("a5.core.compact.uncompact", cp.uncompact, [list(lst[:3]), tt], [list(lst[:3]), tt])
        # curve functions (concrete floats)
        h = rng.randrange(1, 12)
        Sx = rng.randrange(4 ** h)
        ori = rng.choice(["uv", "vu", "uw", "wu", "vw", "wv"])
        check("a5.core.hilbert.s_to_anchor", hb.s_to_anchor, [Sx, h, ori], [Sx, h, ori])
        an = hb.s_to_anchor(Sx, h, ori)
        ij = (an.offset[0] + 0.3, an.offset[1] + 0.3)
        check("a5.core.hilbert.ij_to_s", hb.ij_to_s, [ij, h, ori], [ij, h, ori])
        q = rng.randrange(5)
        check("a5.core.origin.quintant_to_segment", quintant_to_segment, [q, so[o]], [q, origins[o]])
        check("a5.core.origin.segment_to_quintant", segment_to_quintant, [q, so[o]], [q, origins[o]])
    # interval evaluator against CPython floats
    from .ivc.evalast import FloatEval
    from .ivc.jets import J
    from mpmath import iv, mp
    from a5.projections.authalic import AuthalicProjection
    A = AuthalicProjection()
    ev = FloatEval(repo)
    iv.prec = 80
    for _ in range(n):
        phi = rng.uniform(-math.pi / 2, math.pi / 2)
        for qual, fn in (("a5.projections.authalic.AuthalicProjection.forward", A.forward), ("a5.projections.authalic.AuthalicProjection.inverse", A.inverse)):
            cases += 1
            j = ev.call(qual, J.var(iv.mpf([phi, phi])))
            lo, hi = float(mp.mpf(j.v._mpi_[0])) - j.err, float(mp.mpf(j.v._mpi_[1])) + j.err
            if not (lo <= fn(phi) <= hi):
                bad.append((qual, phi, "native %r outside enclosure [%r, %r]" % (fn(phi), lo, hi)))
    return {"cases": cases, "disagreements": len(bad), "examples": bad[:5], "seconds": round(time.time() - t0, 2)}


def main():
    ok = True
    for m in ("z3", "mpmath"):
        try:
            importlib.import_module(m)
        except Exception as e:
            print("missing module %s: %s" % (m, e))
            ok = False
    if not os.path.isdir(os.path.join(REPO, "a5")):
        print("repository not found at %s" % REPO)
        ok = False
    p = subprocess.run(["/venv/bin/python", "-c", "import a5; print(a5.__file__)"], capture_output=True, text=True,
                       env=dict(os.environ, PYTHONPATH=REPO))
    if p.returncode != 0:
        print("cannot import a5 under /venv/bin/python: %s" % p.stderr[-300:])
        ok = False
    os.makedirs(os.path.join(VERIF, "evidence"), exist_ok=True)
    if ok:
        n = 400 if "--differential" in sys.argv else 40
        d = differential(n=n, seed=int(os.environ.get("VERIF_SEED", "0") or 0))
        print("translator differential check: %d cases, %d disagreements in %.1fs" % (d["cases"], d["disagreements"], d["seconds"]))
        for ex in d["examples"]:
            print("  DISAGREEMENT %r" % (ex,))
        if d["disagreements"]:
            ok = False
    print("setup ok" if ok else "setup FAILED")
    return 0 if ok else 3


if __name__ == "__main__":
    sys.exit(main())

"""a5verif: contract-based deductive verification machinery for felixpalmer/a5-py.

Engines: pyvc (AST -> verification conditions -> z3/cvc5), ivc (interval/Taylor contracts for
straight-line binary64 code), fxc (frame / ownership contracts over the public API call graph).
See /verif/DESIGN.md.
"""
import os

REPO = os.environ.get("A5VERIF_REPO", "/repo")
VERIF = os.path.dirname(os.path.dirname(os.path.abspath(__file__)))

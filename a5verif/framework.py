"""Check framework: run tasks in parallel, apply known findings, replay counter-models natively,
write evidence, map outcomes to exit codes (0 held, 1 violation, 2 undecided, 3 checker error)."""
import hashlib
import json
import multiprocessing
import os
import re
import subprocess
import sys
import time

from . import REPO, VERIF

VENV_PY = "/venv/bin/python"
_TASKS = []


def load_known_findings():
    p = os.path.join(VERIF, "known_findings.json")
    if not os.path.exists(p):
        return {"findings": [], "fixed": []}
    with open(p) as f:
        return json.load(f)


class TaskSpec:
    def __init__(self, name, runner, functions=(), bounded=False, note=""):
        self.name = name
        self.runner = runner          # callable() -> dict (TaskOutcome.to_json() shape)
        self.functions = list(functions)
        self.bounded = bounded
        self.note = note


class TaskTimeout(BaseException):
    pass


def _alarm(signum, frame):
    raise TaskTimeout()


def _run_one(i):
    import signal
    spec = _TASKS[i]
    t0 = time.time()
    budget = int(os.environ.get("A5VERIF_TASK_BUDGET", "900"))
    try:
        signal.signal(signal.SIGALRM, _alarm)
        signal.alarm(budget)
    except Exception:
        pass
    try:
        r = spec.runner()
    except TaskTimeout:
        r = {"name": spec.name, "status": "unsupported", "message": "task exceeded its time budget of %d s (undecided)" % budget,
             "vcs": [], "paths": 0, "returns": 0, "raises": 0, "seconds": time.time() - t0, "solver_seconds": 0.0,
             "branch_checks": 0, "meta": {}}
    except Exception as e:      # pragma: no cover
        import traceback
        r = {"name": spec.name, "status": "error", "message": "%s: %s\n%s" % (type(e).__name__, e, traceback.format_exc()),
             "vcs": [], "paths": 0, "returns": 0, "raises": 0, "seconds": time.time() - t0, "solver_seconds": 0.0,
             "branch_checks": 0, "meta": {}}
    try:
        signal.alarm(0)
    except Exception:
        pass
    r["functions"] = spec.functions
    r["bounded"] = spec.bounded
    if os.environ.get("A5VERIF_PROGRESS"):
        sys.stderr.write("[task %.1fs %s] %s vcs=%d\n" % (time.time() - t0, r.get("status"), spec.name, len(r.get("vcs", []))))
        sys.stderr.flush()
    return r


def run_tasks(specs, procs=None):
    global _TASKS
    _TASKS = list(specs)
    procs = procs or min(16, max(1, len(_TASKS)))
    if len(_TASKS) == 0:
        return []
    if procs == 1 or os.environ.get("A5VERIF_SERIAL"):
        return [_run_one(i) for i in range(len(_TASKS))]
    ctx = multiprocessing.get_context("fork")
    with ctx.Pool(procs) as pool:
        return list(pool.imap_unordered(_run_one, range(len(_TASKS))))


def native_replay(prop, kind, payload, timeout=600):
    """Run a replay natively under the interpreter the test-suite uses, importing /repo."""
    env = dict(os.environ)
    env["PYTHONPATH"] = REPO + os.pathsep + VERIF
    req = json.dumps({"property": prop, "kind": kind, "payload": payload})
    try:
        p = subprocess.run([VENV_PY, "-m", "a5verif.replay"], input=req, capture_output=True, text=True,
                           env=env, cwd=VERIF, timeout=timeout)
    except subprocess.TimeoutExpired:
        return {"confirmed": False, "error": "replay timed out"}
    if p.returncode != 0:
        return {"confirmed": False, "error": "replay crashed", "stderr": p.stderr[-2000:]}
    try:
        return json.loads(p.stdout.strip().splitlines()[-1])
    except Exception:
        return {"confirmed": False, "error": "unparsable replay output", "stdout": p.stdout[-2000:]}


def write_replay_file(prop, obligation, record):
    d = os.path.join(VERIF, "replays")
    os.makedirs(d, exist_ok=True)
    h = hashlib.sha1((obligation + json.dumps(record, sort_keys=True, default=str)).encode()).hexdigest()[:10]
    path = os.path.join(d, "%s-%s.json" % (prop, h))
    with open(path, "w") as f:
        json.dump(record, f, indent=1, default=str)
    return path


class CheckResult:
    def __init__(self, prop):
        self.prop = prop
        self.violations = []       # (obligation, replay path, suffix)
        self.known_hits = []
        self.undecided = []
        self.errors = []
        self.evidence = None


def finish(prop, tier, seed, t0, level, coverage, assumptions, res, technique_note=None):
    """Write the evidence file, print VIOLATION / KNOWN-FINDING lines, return the exit code."""
    ev = {
        "property_id": prop,
        "tier": tier,
        "seed": seed,
        "level": level,
        "coverage": coverage,
        "assumptions": assumptions,
        "wall_s": round(time.time() - t0, 3),
        "violations": len(res.violations),
    }
    os.makedirs(os.path.join(VERIF, "evidence"), exist_ok=True)
    with open(os.path.join(VERIF, "evidence", "%s.json" % prop), "w") as f:
        json.dump(ev, f, indent=1, default=str)
    for k in res.known_hits:
        print("KNOWN-FINDING: property=%s %s" % (prop, k))
    for e in res.errors[:5]:
        print("CHECKER-ERROR property=%s %s" % (prop, e[:600]))
    ev["coverage"]["checker_errors"] = res.errors
    for u in res.undecided[:4]:
        print("UNDECIDED property=%s %s" % (prop, u[:400]))
    if len(res.undecided) > 4:
        print("UNDECIDED property=%s ... and %d more (see evidence file)" % (prop, len(res.undecided) - 4))
    # confirmed (replayed) violations first; at most 6 lines, the rest are in the evidence file
    vs = sorted(res.violations, key=lambda v: (v[2] != "", v[0]))
    for ob, path, suffix in vs[:6]:
        print("VIOLATION property=%s replay=%s%s" % (prop, path, (" " + suffix) if suffix else ""))
        print("  failed obligation: %s" % ob)
    if len(vs) > 6:
        print("  ... and %d more failed obligations (see evidence file)" % (len(vs) - 6))
    ev["coverage"]["failed_obligations"] = [{"obligation": ob, "replay": path, "note": suffix} for ob, path, suffix in vs]
    ev["coverage"]["undecided"] = res.undecided
    with open(os.path.join(VERIF, "evidence", "%s.json" % prop), "w") as f:
        json.dump(ev, f, indent=1, default=str)
    confirmed = [v for v in res.violations if v[2] == ""]
    if confirmed:
        code = 1          # a counter-model replayed on the real code decides, whatever else went wrong
    elif res.errors:
        code = 3
    elif res.violations:
        code = 1
    elif res.undecided:
        code = 2
    else:
        code = 0
    print("RESULT property=%s tier=%s exit=%d obligations=%s discharged=%s wall=%.1fs" % (
        prop, tier, code, coverage.get("obligations"), coverage.get("discharged"), time.time() - t0))
    return code


def summarize_outcomes(outcomes):
    """Aggregate VC instances into named obligations."""
    named = {}
    for o in outcomes:
        for v in o["vcs"]:
            n = named.setdefault(v["name"], {"name": v["name"], "instances": 0, "valid": 0, "invalid": 0, "unknown": 0, "known": 0,
                                             "seconds": 0.0, "solvers": set(), "kind": v.get("kind"), "where": v.get("where"),
                                             "bounded": o.get("bounded", False), "models": []})
            n["instances"] += 1
            n[v["status"]] += 1
            n["seconds"] += v["seconds"]
            n["solvers"].add(v["solver"].replace("(dup)", ""))
            if v["status"] in ("invalid", "known"):
                n["models"].append(v.get("model"))
    for n in named.values():
        n["solvers"] = sorted(n["solvers"])
        n["seconds"] = round(n["seconds"], 4)
    return named

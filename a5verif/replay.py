"""Native replay of solver counter-models against the real code (run under /venv/bin/python with
PYTHONPATH=/repo:/verif).  Reads one JSON request on stdin, prints one JSON line."""
import json
import sys
import traceback


def cell_from(model, tag):
    from a5.core.origin import origins
    from a5.core.utils import A5Cell
    o = model[tag + "_o"]
    if not (0 <= o < len(origins)):
        return None
    return A5Cell(origin=origins[o], segment=model[tag + "_g"], S=model[tag + "_S"], resolution=model[tag + "_r"])


def fits(cell, maxres):
    r, S = cell["resolution"], cell["S"]
    if r > maxres or r < -1 or S < 0:
        return False
    return S < (1 if r < 2 else 4 ** (r - 1))


def celleq(a, b):
    if a["resolution"] != b["resolution"]:
        return False
    if a["resolution"] == -1:
        return True
    if a["origin"].id != b["origin"].id:
        return False
    if a["resolution"] == 0:
        return True
    return a["segment"] == b["segment"] and a["S"] == b["S"]


def show(cell):
    return {"face": cell["origin"].id, "segment": cell["segment"], "S": cell["S"], "resolution": cell["resolution"]}


def r_serialize(model):
    from a5.core import serialization as s
    if not model:
        return r_pool()
    cell = cell_from(model, "c")
    if cell is None:
        return {"confirmed": False, "note": "model outside the input domain"}
    ok_fit = fits(cell, s.MAX_RESOLUTION)
    try:
        idv = s.serialize(cell)
    except Exception as e:
        bad = ok_fit or not isinstance(e, ValueError)
        return {"confirmed": bad, "input": show(cell), "observed": "raised %s: %s" % (type(e).__name__, e),
                "expected": "an id in [1, 2^64)" if ok_fit else "ValueError"}
    if not ok_fit:
        return {"confirmed": True, "input": show(cell), "observed": "returned %#x" % idv, "expected": "ValueError (position does not fit)"}
    lo_ok = (idv == 0) if cell["resolution"] == -1 else (1 <= idv < 2 ** 64)
    if not lo_ok:
        return {"confirmed": True, "input": show(cell), "observed": "returned %#x" % idv, "expected": "id in [1, 2^64)"}
    return r_roundtrip(model)


def r_pool():
    """Bounded stand-in for C05 (used when a body leaves the accepted subset): encode / decode over a structured pool,
    including decoding several ids before looking at the results and re-encoding a cell record after changing it."""
    import random
    from a5.core import serialization as s
    from a5.core.origin import origins
    from a5.core.utils import A5Cell
    rng = random.Random(0)
    cells = []
    for r in range(-1, 30):
        lim = 1 if r < 2 else 4 ** (r - 1)
        for S in sorted({0, 1 % lim, 2 % lim, 3 % lim, lim - 1, lim // 2, rng.randrange(lim)}):
            for o, g in ((0, 0), (3, 2), (11, 4), (rng.randrange(12), rng.randrange(5))):
                cells.append((o, g, S, r))
    ids = []
    for (o, g, S, r) in cells:
        c = A5Cell(origin=origins[o], segment=g, S=S, resolution=r)
        try:
            ids.append(s.serialize(c))
        except Exception as e:
            return {"confirmed": True, "input": {"face": o, "segment": g, "S": S, "resolution": r}, "observed": "raised %s: %s" % (type(e).__name__, e)}
    decoded = [s.deserialize(i) for i in ids]          # all decoded first, compared afterwards
    seen = {}
    for (o, g, S, r), i, d in zip(cells, ids, decoded):
        want = A5Cell(origin=origins[o], segment=g, S=S, resolution=r)
        if not celleq(d, want) or s.get_resolution(i) != r or not (i == 0 if r == -1 else 1 <= i < 2 ** 64):
            return {"confirmed": True, "input": show(want), "observed": {"id": "%#x" % i, "decoded (after decoding the whole list)": show(d)}}
        key = (r, None if r == -1 else o, None if r < 1 else g, S if r >= 2 else 0)
        if i in seen and seen[i] != key:
            return {"confirmed": True, "input": [seen[i], key], "observed": "two cells share the id %#x" % i}
        seen[i] = key
    # one record, changed in place between two encodings
    rec = A5Cell(origin=origins[2], segment=1, S=0, resolution=3)
    i0 = s.serialize(rec)
    rec["S"] = 5
    i1 = s.serialize(rec)
    fresh = s.serialize(A5Cell(origin=origins[2], segment=1, S=5, resolution=3))
    if i1 != fresh or sorted(rec.keys()) != ["S", "origin", "resolution", "segment"]:
        return {"confirmed": True, "input": "one cell record encoded, S changed from 0 to 5, encoded again", "observed": "%#x (record now has keys %s)" % (i1, sorted(rec.keys())),
                "expected": "%#x" % fresh}
    rec["S"] = 4 ** 2
    try:
        v = s.serialize(rec)
        return {"confirmed": True, "input": "record re-encoded with S = 16 at resolution 3", "observed": "returned %#x" % v, "expected": "ValueError"}
    except ValueError:
        pass
    return {"confirmed": False, "note": "no failing input among %d cells (decode-all-then-compare, re-encode after in-place change)" % len(cells)}


def r_roundtrip(model):
    from a5.core import serialization as s
    if not model:
        return r_pool()
    cell = cell_from(model, "c")
    if cell is None or not fits(cell, s.MAX_RESOLUTION):
        return {"confirmed": False, "note": "model outside the input domain"}
    try:
        idv = s.serialize(cell)
    except ValueError as e:
        return {"confirmed": False, "note": "encoder refused: %s" % e}
    try:
        r = s.get_resolution(idv)
        back = s.deserialize(idv)
        again = s.serialize(back)
    except Exception as e:
        return {"confirmed": True, "input": show(cell), "observed": "id %#x then %s: %s" % (idv, type(e).__name__, e)}
    bad = (r != cell["resolution"]) or (not celleq(back, cell)) or (again != idv)
    return {"confirmed": bad, "input": show(cell), "observed": {"id": "%#x" % idv, "get_resolution": r, "decoded": show(back), "re-encoded": "%#x" % again}}


def r_injective(model):
    from a5.core import serialization as s
    if not model:
        return r_pool()
    c1, c2 = cell_from(model, "c1"), cell_from(model, "c2")
    if c1 is None or c2 is None or celleq(c1, c2):
        return {"confirmed": False, "note": "model outside the input domain"}
    try:
        i1, i2 = s.serialize(c1), s.serialize(c2)
    except ValueError as e:
        return {"confirmed": False, "note": "encoder refused: %s" % e}
    return {"confirmed": i1 == i2, "input": [show(c1), show(c2)], "observed": ["%#x" % i1, "%#x" % i2]}


KINDS = {"serialize": r_serialize, "roundtrip": r_roundtrip, "injective": r_injective}


def main():
    req = json.loads(sys.stdin.read())
    kind = req["kind"]
    try:
        if kind in KINDS:
            out = KINDS[kind](req["payload"]["model"])
            if not out.get("confirmed") and req["payload"]["model"]:
                # the model itself is not a failing input (e.g. a frame obligation): bounded search on the pool
                out2 = r_pool()
                if out2.get("confirmed"):
                    out = out2
        else:
            from a5verif import replay_more
            out = replay_more.dispatch(kind, req["payload"])
    except Exception as e:
        out = {"confirmed": False, "error": "%s: %s" % (type(e).__name__, e), "trace": traceback.format_exc()[-1500:]}
    print(json.dumps(out, default=str))


if __name__ == "__main__":
    main()

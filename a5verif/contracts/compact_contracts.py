"""Sidecar contracts for a5/core/compact.py and, at the abstract (loop) level, for its callees.

Abstract level: ints are mathematical (z3 Int); RES, VALIDID, NCHILD, CHILD, PS, ... are uninterpreted symbols
declared by the harness.  Loop ordinals are in source order inside each function.
"""
from ..pyvc.contracts import Contract, LoopContract

GRES = "a5.core.serialization.get_resolution"
NUMCHILD = "a5.core.cell_info.get_num_children"
CHILDREN = "a5.core.serialization.cell_to_children"
PARENT = "a5.core.serialization.cell_to_parent"
FIRST = "a5.core.serialization.is_first_child"
STRIDE = "a5.core.serialization.get_stride"
UNCOMPACT = "a5.core.compact.uncompact"
COMPACT = "a5.core.compact.compact"
SORTKEY = "a5.core.compact._hierarchy_key"

EXPECT = "(cells[k] if RES(cells[k]) == target_resolution else CHILD(cells[k], target_resolution, j))"
NC = "NCHILD(RES(cells[k]), target_resolution)"


def register(reg):
    # ---- callees, by contract (each is discharged against the real body at bit level: C05/C06/C20 tasks)
    reg.add(Contract(GRES, requires=[("valid-id", "VALIDID(index)")],
                     ensures=[("res", "result == RES(index) and -1 <= result and result <= 29")], result_type="int"))
    reg.add(Contract(NUMCHILD, requires=[("levels", "-1 <= parent_resolution and parent_resolution <= 30 and "
                                                    "-1 <= child_resolution and child_resolution <= 30")],
                     ensures=[("count", "result == NCHILD(parent_resolution, child_resolution)")], result_type="int"))
    reg.add(Contract(CHILDREN,
                     requires=[("valid-id", "VALIDID(index)"), ("level-given", "child_resolution is not None")],
                     raises={"ValueError": "child_resolution < RES(index) or child_resolution > 30"},
                     ensures=[("len", "len(result) == NCHILD(RES(index), child_resolution)"),
                              ("elems", "all(result[q] == CHILD(index, child_resolution, q) for q in range(0, len(result)))")],
                     result_type="intlist"))
    register_compact(reg)
    # ---- uncompact
    reg.add(Contract(
        UNCOMPACT,
        loops={
            0: LoopContract(counter="_n", invariant=[
                ("size-is-prefix-sum", "n == PS(_n) and 0 <= n"),
                ("levels-recorded", "len(resolutions) == _n"),
                ("levels-are-resolutions", "all(resolutions[k] == RES(cells[k]) and -1 <= RES(cells[k]) and "
                                           "RES(cells[k]) <= target_resolution for k in range(0, _n))"),
                ("prefix-sums-bounded", "all(0 <= PS(k) and PS(k) <= n for k in range(0, _n + 1))"),
            ]),
            1: LoopContract(counter="_i", invariant=[
                ("offset-is-prefix-sum", "offset == PS(_i)"),
                ("result-length", "len(result) == n"),
                ("blocks-before-offset", "all(PS(k) + %s <= offset for k in range(0, _i))" % NC),
                ("blocks-written", "all(all(result[PS(k) + j] == %s for j in range(0, %s)) for k in range(0, _i))" % (EXPECT, NC)),
            ]),
            2: LoopContract(counter="_j", invariant=[
                ("result-length", "len(result) == n"),
                ("copied-so-far", "all(result[offset + jj] == children[jj] for jj in range(0, _j))"),
                ("earlier-blocks-kept", "all(result[p] == old_result[p] for p in range(0, offset))"),
            ]),
        },
    ))


# ------------------------------------------------------------------------------------------------ compact
ANY_RESULT = "any(ANCX(result[k]) for k in range(0, len(result)))"
ANY_CUR = "any(ANCX(current_cells[k]) for k in range(0, len(current_cells)))"
ANY_CUR_FROM_I = "any(ANCX(current_cells[k]) for k in range(i, len(current_cells)))"
ANY_CELLS = "any(ANCX(cells[k]) for k in range(0, len(cells)))"


SORTED = "all(all(KEYF(%s[a]) < KEYF(%s[b]) for b in range(a + 1, len(%s))) for a in range(0, len(%s)))"
UNREL = "all(all(not REL(%s[a], %s[b]) for b in range(a + 1, len(%s))) for a in range(0, len(%s)))"


def register_compact(reg, coverage=True, canonical=False):
    """Loop contracts of compact.  `coverage` adds the C08 invariants (pointwise coverage of a fixed probe cell x),
    `canonical` the C09 invariants (sorted by the key the code sorts by, pairwise unrelated, no group skipped)."""
    reg.add(Contract(FIRST, requires=[("valid-id", "VALIDID(index)"), ("level", "resolution is not None and resolution == RES(index) and resolution >= 0")],
                     ensures=[("first", "result == FIRSTC(index)")], result_type="bool"))
    reg.add(Contract(STRIDE, requires=[("level", "0 <= resolution and resolution <= 29")],
                     ensures=[("stride", "result == STRIDEF(resolution) and result > 0")], result_type="int"))
    reg.add(Contract(PARENT, requires=[("valid-id", "VALIDID(index) and RES(index) >= 0"), ("default-level", "parent_resolution is None")],
                     ensures=[("parent", "result == PAR1(index) and VALIDID(result) and RES(result) == RES(index) - 1")], result_type="int"))
    # the key compact sorts by (bit level: C09 tasks sort-key[r=..] tie it to the hierarchical key specification)
    reg.add(Contract(SORTKEY, requires=[("valid-id", "VALIDID(cell)")], ensures=[("key", "result == KEYF(cell)")], result_type="int",
                     logical_result="KEYF(cell)"))
    outer = [("elements-valid", "all(VALIDID(current_cells[k]) and -1 <= RES(current_cells[k]) and RES(current_cells[k]) <= RX "
                                "for k in range(0, len(current_cells)))")]
    inner = [("index-range", "0 <= i and i <= len(current_cells)"),
             ("emitted-valid", "all(VALIDID(result[k]) and -1 <= RES(result[k]) and RES(result[k]) <= RX for k in range(0, len(result)))")]
    ghost_init = ghost_step = None
    if coverage:
        # ghost state of the inner loop: CR = "an emitted cell covers x", CC = "a consumed cell covers x",
        # gi = value of i at the previous loop head (exactly one cell is emitted per iteration)
        outer.append(("coverage-kept", "(%s) == (%s)" % (ANY_CUR, ANY_CELLS)))
        ghost_init = "CR = False\nCC = False\ngi = 0"
        ghost_step = ("CR = CR or ANCX(result[len(result) - 1])\n"
                      "CC = CC or any(ANCX(current_cells[k]) for k in range(gi, i))\n"
                      "gi = i")
        inner.append(("ghost-index", "gi == i"))
        inner.append(("ghost-emitted-is-faithful", "CR == (%s)" % ANY_RESULT))
        inner.append(("ghost-consumed-is-faithful", "CC == any(ANCX(current_cells[k]) for k in range(0, i))"))
        inner.append(("emitted-covers-exactly-what-was-consumed", "CR == CC"))
    if canonical:
        # C09: the working list is strictly increasing in the key the code sorts by, pairwise unrelated, and a pass
        # that changes nothing has skipped no complete contiguous sibling group
        outer.append(("sorted-by-key", SORTED % ("current_cells", "current_cells", "current_cells", "current_cells")))
        outer.append(("pairwise-unrelated", UNREL % ("current_cells", "current_cells", "current_cells", "current_cells")))
        outer.append(("unchanged-pass-left-no-group", "changed or all(not GROUPAT(current_cells, p) for p in range(0, len(current_cells)))"))
        inner.append(("emitted-sorted-by-key", SORTED % ("result", "result", "result", "result")))
        inner.append(("emitted-below-rest", "all(all(KEYF(result[a]) < KEYF(current_cells[b]) for b in range(i, len(current_cells))) "
                                            "for a in range(0, len(result)))"))
        inner.append(("emitted-pairwise-unrelated", UNREL % ("result", "result", "result", "result")))
        inner.append(("emitted-unrelated-to-rest", "all(all(not REL(result[a], current_cells[b]) for b in range(i, len(current_cells))) "
                                                   "for a in range(0, len(result)))"))
        inner.append(("no-group-skipped-while-unchanged",
                      "changed or (len(result) == i and all(result[k] == current_cells[k] for k in range(0, i)) and "
                      "all(not GROUPAT(current_cells, p) for p in range(0, i)))"))
    reg.add(Contract(COMPACT, loops={0: LoopContract(invariant=outer),
                                     1: LoopContract(invariant=inner, ghost_init=ghost_init, ghost_step=ghost_step)}))

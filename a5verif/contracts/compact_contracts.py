from ..pyvc.contracts import Contract, LoopContract


def register(reg):
    pass

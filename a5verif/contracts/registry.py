"""Registry of sidecar contracts (filled by the contract modules on import)."""
from ..pyvc.contracts import Registry

_REG = None


def registry():
    global _REG
    if _REG is None:
        _REG = Registry()
        from . import serialization_contracts, compact_contracts, hilbert_contracts   # noqa: F401
        serialization_contracts.register(_REG)
        compact_contracts.register(_REG)
        hilbert_contracts.register(_REG)
    return _REG

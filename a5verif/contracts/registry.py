"""Registries of sidecar contracts.

`registry()` - bit-level contracts (ints are bit-vectors; spec functions are defined in specs.py).
`registry_abs()` - loop-level contracts over the abstraction: the id-level spec functions (RES, NCHILD, CHILD,
  PAR, KEY, ...) are uninterpreted, the callees are used through their contracts, and the facts about the spec
  functions that the loop-level proofs use are exactly the lemmas discharged at bit level.
"""
from ..pyvc.contracts import Registry

_REG = None
_REG_ABS = None


def registry():
    global _REG
    if _REG is None:
        _REG = Registry()
        from . import serialization_contracts, hilbert_contracts   # noqa: F401
        serialization_contracts.register(_REG)
        hilbert_contracts.register(_REG)
    return _REG


def registry_abs():
    global _REG_ABS
    if _REG_ABS is None:
        _REG_ABS = Registry()
        from . import compact_contracts
        compact_contracts.register(_REG_ABS)
    return _REG_ABS


_REG_C09 = None


def registry_abs_canonical():
    """Loop-level contracts of compact with the C09 invariants (sorted by key, antichain, no group skipped)."""
    global _REG_C09
    if _REG_C09 is None:
        _REG_C09 = Registry()
        from . import compact_contracts
        compact_contracts.register(_REG_C09)
        compact_contracts.register_compact(_REG_C09, coverage=False, canonical=True)
    return _REG_C09

"""Sidecar contracts for a5/core/serialization.py (loop ordinals are in source order)."""
from ..pyvc.contracts import Contract, LoopContract

CHILDREN = "a5.core.serialization.cell_to_children"


SERIALIZE = "a5.core.serialization.serialize"
GET_RESOLUTION = "a5.core.serialization.get_resolution"


def register(reg):
    # serialize, for modular use by its callers.  Proved against the body by the C05 tasks
    # `serialize[r=..]` (post:result==ENC(cell), every-fitting-cell-encodes, never-silently-encodes-unfit-position).
    reg.add(Contract(
        SERIALIZE,
        requires=[("shape", "-1 <= cell['resolution'] and cell['resolution'] <= 29 and 0 <= cell['segment'] and "
                            "cell['segment'] < 5 and cell['S'] >= 0")],
        raises={"ValueError": "cell['resolution'] >= 0 and cell['S'] >= SLIMIT(cell['resolution'])"},
        ensures=[("enc", "result == ENC_CELL(cell)")],
        result_type="int",
    ))
    # get_resolution, for modular use where the level of the argument is symbolic (31 paths otherwise).
    # Proved against the body by the C05 tasks get_resolution[r=..] (result == r for the id of a level-r cell) together
    # with the specification lemma RESOF(ENC(cell)) == cell.resolution (tasks lemma/resof[r=..]).
    reg.add(Contract(
        GET_RESOLUTION,
        requires=[("valid-id", "RESOF(index) >= -1")],
        ensures=[("res", "result == RESOF(index)")],
        result_type="int",
    ))
    # cell_to_children: loops 0 and 1 (faces, segments) iterate over concrete lists of at most 12 and 5
    # elements and are unrolled completely; loop 2 appends `children_count` ids and carries the invariant
    # "everything emitted so far is the specified prefix of the result".
    reg.add(Contract(
        CHILDREN,
        loops={
            2: LoopContract(
                counter="_i",
                invariant=[
                    ("emitted-count", "len(children) == len(old_children) + _i"),
                    ("emitted-prefix-is-specified",
                     "all(children[k] == CHILDK(origin.id, origin.first_quintant, segment, S, current_resolution, "
                     "new_resolution, k, FQ_OF) for k in range(0, len(children)))"),
                ],
            ),
        },
    ))

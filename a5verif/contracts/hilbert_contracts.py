"""Sidecar contracts for a5/core/hilbert.py."""
from ..pyvc.contracts import Contract, LoopContract

SHIFT = "a5.core.hilbert._shift_digits"
FLIPS = "a5.core.hilbert.quaternary_to_flips"


def register(reg):
    # small loop-free helpers called once per digit: inlined through a merged (if-then-else) summary of all their
    # paths - their strongest postcondition - instead of splitting the caller's path at every digit
    reg.merged_calls.add(SHIFT)
    reg.merged_calls.add(FLIPS)
    reg.merged_calls.add("a5.core.hilbert.quaternary_to_kj")
    reg.merged_calls.add("a5.core.hilbert.ij_to_quaternary")

"""Specification functions (plain Python).

Written from the property statements and the documented id layout
    [6 bits: face at level 0, 5*face+segn at level >= 1][2 bits per Hilbert level][marker 1][zeros]
not from the function bodies.  They are used twice: translated to SMT by the same interpreter that
translates the repository code, and executed natively as run-time oracle in replays and in the
translator's differential self-check.  A cell is a dict {origin, segment, S, resolution}; `origin`
has fields `id` and `first_quintant`.
"""

MAXRES = 29            # finest resolution that has a marker position in a 64-bit id
TOPSHIFT = 58
LOW58 = (1 << 58) - 1
U64 = 1 << 64


def MARKPOS(r):
    """Bit position of the resolution marker, r in 0..29."""
    return 57 - r if r < 2 else 59 - 2 * r


def MARKER(r):
    return 1 << MARKPOS(r)


def SLIMIT(r):
    """Number of curve positions per segment at resolution r."""
    return 1 if r < 2 else 1 << (2 * (r - 1))


def VALIDCELL(o, g, S, r):
    return 0 <= o and o < 12 and 0 <= g and g < 5 and -1 <= r and r <= MAXRES and 0 <= S and S < SLIMIT(r)


def SEGN(fq, g):
    """Stored segment number: segment counted from the face's first quintant."""
    return g - fq if g >= fq else g - fq + 5      # = (g - fq) mod 5 for 0 <= g, fq < 5


def ENC(o, fq, g, S, r):
    """The id of cell (face o with first quintant fq, segment g, position S, resolution r)."""
    if r == -1:
        return 0
    top6 = o if r == 0 else 5 * o + SEGN(fq, g)
    body = 0 if r < 2 else S << (MARKPOS(r) + 1)
    return (top6 << TOPSHIFT) | body | MARKER(r)


def ENC_CELL(cell):
    return ENC(cell["origin"].id, cell["origin"].first_quintant, cell["segment"], cell["S"], cell["resolution"])


def VALID_CELL(cell):
    return VALIDCELL(cell["origin"].id, cell["segment"], cell["S"], cell["resolution"])


def CELLEQ(a, b):
    """Equality of cells as the property means it: a face cell has no segment, the world cell nothing."""
    if a["resolution"] != b["resolution"]:
        return False
    if a["resolution"] == -1:
        return True
    if a["origin"].id != b["origin"].id:
        return False
    if a["resolution"] == 0:
        return True
    return a["segment"] == b["segment"] and a["S"] == b["S"]


def HASRES(x, r):
    """x carries the marker of resolution r (r in 0..29): bits 0..MARKPOS(r) are exactly the marker."""
    return (x & ((MARKER(r) << 1) - 1)) == MARKER(r)


def TOP6(x):
    return x >> TOPSHIFT


def NCELLS(r):
    if r < 0:
        return 0
    if r == 0:
        return 12
    return 60 * (1 << (2 * (r - 1)))


def NCHILD(a, b):
    """Number of descendants at level b of one cell of level a."""
    if b < a:
        return 0
    if b == a:
        return 1
    if a == -1:
        return NCELLS(b)
    if a == 0:
        return 5 * (1 << (2 * (b - 1)))
    return 1 << (2 * (b - a))


# ---------------------------------------------------------------------------------------------
# hierarchy (C06): the k-th element of cell_to_children(c, b) in list order, and parents.
# `fq_of` is the table face -> first quintant (ORIGINS[face].first_quintant), passed as a list.

def SH4(rc, b):
    """log2 of the number of positions per (face, segment) block among the level-b descendants of a level-rc cell."""
    base = rc if rc > 1 else 1
    return 0 if b <= base else 2 * (b - base)


def N4(rc, b):
    return 1 << SH4(rc, b)


def CHILDK(o, fq, g, S, rc, b, k, fq_of):
    """k-th descendant at level b (b > rc) of the cell (o, g, S, rc); fq is o's first quintant."""
    sh = SH4(rc, b)
    low = (1 << sh) - 1
    if rc >= 1:
        return ENC(o, fq, g, (S << sh) + k, b)
    if rc == 0:
        if b == 0:
            return ENC(o, fq, 0, 0, 0)
        return ENC(o, fq, k >> sh, k & low, b)
    # world cell
    if b == 0:
        return ENC(k, 0, 0, 0, 0)
    fs = k >> sh                    # 5*face + segment
    face = fs // 5
    return ENC(face, fq_of[face], fs % 5, k & low, b)


def STRIDE(b):
    """Numeric distance between consecutive ids of level b that share face and segment."""
    return 1 << 58 if b < 2 else 1 << (2 * (30 - b))


def PARENT_ID(o, fq, g, S, r, a):
    """Id of the level-a ancestor (-1 <= a <= r) of the cell (o, g, S, r)."""
    if a == -1:
        return 0
    if a == r:
        return ENC(o, fq, g, S, r)
    if a >= 2:
        return ENC(o, fq, g, S >> (2 * (r - a)), a)
    return ENC(o, fq, g, 0, a)


def INDEX_IN_CHILDREN(rc, b, face, g, dS, cS):
    """List position of the level-b cell (face, g, dS) among the level-b descendants of a level-rc cell
    with position cS (b > rc); the cell is a descendant iff the result is in [0, NCHILD(rc, b))."""
    n4 = N4(rc, b)
    if rc >= 1:
        return dS - cS * n4
    if rc == 0:
        return g * n4 + dS
    if b == 0:
        return face
    return face * 5 * n4 + g * n4 + dS


# ---------------------------------------------------------------------------------------------
# sibling groups and coverage (C08 / C09)

def NSIB(r):
    """Number of cells that share a parent at level r (r >= 0)."""
    return 12 if r == 0 else 5 if r == 1 else 4


def FIRSTSPEC(o, fq, g, S, r):
    """The cell is the first of its sibling group in id order."""
    if r == 0:
        return o == 0
    if r == 1:
        return SEGN(fq, g) == 0
    return S % 4 == 0


def IS_ANCESTOR(co, cfq, cg, cS, cr, xo, xfq, xg, xS, xr):
    """Cell c = (co, cg, cS, cr) is an ancestor of (or equal to) cell x; the world cell is everybody's ancestor."""
    if cr > xr:
        return False
    if cr == -1:
        return True
    if co != xo:
        return False
    if cr == 0:
        return True
    if cg != xg:
        return False
    if cr == 1:
        return True
    return (xS >> (2 * (xr - cr))) == cS


def HKEY(x):
    """Hierarchical sort key: a level-0 id carries the face in its top 6 bits where every finer id carries
    5*face+segment; moving the face to 5*face places a face cell directly before its own descendants."""
    if HASRES(x, 0):
        return ((TOP6(x) * 5) << TOPSHIFT) | (x & LOW58)
    return x


def RESOF(x):
    """Resolution of a valid id, as a function: the level whose marker is the lowest set bit (-1 for the world cell)."""
    if x == 0:
        return -1
    low = x & (0 - x)
    r = -2
    for k in range(30):
        r = k if low == MARKER(k) else r
    return r


# ---------------------------------------------------------------------------------------------
# curve index <-> lattice position (C18).  Tri(f): the triangle (IJ coordinates) that a cell with flip state f and
# all of its descendants occupy, given by three affine functionals that vanish on its edges and are positive inside;
# for a triangle scaled by S the constant 2 becomes 2*S.  Read off the child offsets of quaternary_to_kj.

def TRI_FUNCTIONALS(fx, fy, u, v, S):
    if fx == 1 and fy == 1:
        return (u, v, 2 * S - (u + v))
    if fx == -1 and fy == 1:
        return (u, v + 2 * S, 0 - (u + v))
    if fx == 1 and fy == -1:
        return (0 - u, 2 * S - v, u + v)
    return (0 - u, 0 - v, 2 * S + (u + v))


def IN_INSET_TRI(fx, fy, u, v, S, eps):
    """(u, v) lies in S*Tri(f), at least eps away from every edge (in the functionals' units)."""
    L = TRI_FUNCTIONALS(fx, fy, u, v, S)
    return L[0] >= eps and L[1] >= eps and L[2] >= eps


# ---------------------------------------------------------------------------------------------
# loop-level specification helpers (abstract level: RES, FIRSTC, STRIDEF are uninterpreted there)

def GROUPAT(arr, p):
    """A complete sibling group sits at positions p .. p+n-1 of the list, first child first, at stride distance."""
    c = arr[p]
    r = RES(c)
    st = STRIDEF(r)
    if r >= 2:
        return FIRSTC(c) and p + 4 <= len(arr) and arr[p + 1] == c + st and arr[p + 2] == c + 2 * st and arr[p + 3] == c + 3 * st
    if r == 1:
        return (FIRSTC(c) and p + 5 <= len(arr) and arr[p + 1] == c + st and arr[p + 2] == c + 2 * st and arr[p + 3] == c + 3 * st
                and arr[p + 4] == c + 4 * st)
    if r == 0:
        return (FIRSTC(c) and p + 12 <= len(arr) and arr[p + 1] == c + st and arr[p + 2] == c + 2 * st and arr[p + 3] == c + 3 * st
                and arr[p + 4] == c + 4 * st and arr[p + 5] == c + 5 * st and arr[p + 6] == c + 6 * st and arr[p + 7] == c + 7 * st
                and arr[p + 8] == c + 8 * st and arr[p + 9] == c + 9 * st and arr[p + 10] == c + 10 * st and arr[p + 11] == c + 11 * st)
    return False

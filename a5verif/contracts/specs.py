"""Specification functions (plain Python).

Written from the property statements and the documented id layout
    [6 bits: face at level 0, 5*face+segn at level >= 1][2 bits per Hilbert level][marker 1][zeros]
not from the function bodies.  They are used twice: translated to SMT by the same interpreter that
translates the repository code, and executed natively as run-time oracle in replays and in the
translator's differential self-check.  A cell is a dict {origin, segment, S, resolution}; `origin`
has fields `id` and `first_quintant`.
"""

MAXRES = 29            # finest resolution that has a marker position in a 64-bit id
TOPSHIFT = 58
LOW58 = (1 << 58) - 1
U64 = 1 << 64


def MARKPOS(r):
    """Bit position of the resolution marker, r in 0..29."""
    return 57 - r if r < 2 else 59 - 2 * r


def MARKER(r):
    return 1 << MARKPOS(r)


def SLIMIT(r):
    """Number of curve positions per segment at resolution r."""
    return 1 if r < 2 else 1 << (2 * (r - 1))


def VALIDCELL(o, g, S, r):
    return 0 <= o and o < 12 and 0 <= g and g < 5 and -1 <= r and r <= MAXRES and 0 <= S and S < SLIMIT(r)


def SEGN(fq, g):
    """Stored segment number: segment counted from the face's first quintant."""
    return (g - fq) % 5


def ENC(o, fq, g, S, r):
    """The id of cell (face o with first quintant fq, segment g, position S, resolution r)."""
    if r == -1:
        return 0
    top6 = o if r == 0 else 5 * o + SEGN(fq, g)
    body = 0 if r < 2 else S << (MARKPOS(r) + 1)
    return (top6 << TOPSHIFT) | body | MARKER(r)


def ENC_CELL(cell):
    return ENC(cell["origin"].id, cell["origin"].first_quintant, cell["segment"], cell["S"], cell["resolution"])


def VALID_CELL(cell):
    return VALIDCELL(cell["origin"].id, cell["segment"], cell["S"], cell["resolution"])


def CELLEQ(a, b):
    """Equality of cells as the property means it: a face cell has no segment, the world cell nothing."""
    if a["resolution"] != b["resolution"]:
        return False
    if a["resolution"] == -1:
        return True
    if a["origin"].id != b["origin"].id:
        return False
    if a["resolution"] == 0:
        return True
    return a["segment"] == b["segment"] and a["S"] == b["S"]


def HASRES(x, r):
    """x carries the marker of resolution r (r in 0..29): bits 0..MARKPOS(r) are exactly the marker."""
    return (x & ((MARKER(r) << 1) - 1)) == MARKER(r)


def TOP6(x):
    return x >> TOPSHIFT


def NCELLS(r):
    if r < 0:
        return 0
    if r == 0:
        return 12
    return 60 * (1 << (2 * (r - 1)))


def NCHILD(a, b):
    """Number of descendants at level b of one cell of level a."""
    if b < a:
        return 0
    if b == a:
        return 1
    if a == -1:
        return NCELLS(b)
    if a == 0:
        return 5 * (1 << (2 * (b - 1)))
    return 1 << (2 * (b - a))

"""Frame contracts over the fxc summaries: which module-level objects the public API may write, and the
structural verification that each permitted write is an idempotent, functionally keyed cache fill or a pure
diagnostic counter."""
import ast

from .analysis import Analysis, IMM, FRESH

API = [
    "a5.core.cell.cell_to_boundary", "a5.core.cell.cell_to_lonlat", "a5.core.cell.lonlat_to_cell",
    "a5.core.hex.hex_to_u64", "a5.core.hex.u64_to_hex",
    "a5.core.serialization.cell_to_parent", "a5.core.serialization.cell_to_children",
    "a5.core.serialization.get_resolution", "a5.core.serialization.get_res0_cells",
    "a5.core.cell_info.get_num_cells", "a5.core.cell_info.cell_area",
    "a5.core.compact.compact", "a5.core.compact.uncompact",
]

# The frame contract (sidecar `modifies` clause of the public API): attributes that may be written after import.
CACHES = [
    {"kind": "list-slot", "cls": "DodecahedronProjection", "module": "a5.projections.dodecahedron", "attr": "face_triangles",
     "func": "get_face_triangle", "index_var": "index",
     "key": {"face_triangle_index": ("int", 0, 9), "reflected": ("bool",), "squashed": ("bool",)},
     # the value stored depends on (reflected, face_triangle_index, squashed-if-reflected)
     "value_key": "lambda k: (k['reflected'], k['face_triangle_index'], And(k['reflected'], k['squashed']))"},
    {"kind": "list-slot", "cls": "DodecahedronProjection", "module": "a5.projections.dodecahedron", "attr": "spherical_triangles",
     "func": "get_spherical_triangle", "index_var": "index",
     "key": {"face_triangle_index": ("int", 0, 9), "origin_id": ("int", 0, 11), "reflected": ("bool",)},
     "value_key": "lambda k: (k['reflected'], k['face_triangle_index'], k['origin_id'])"},
    {"kind": "dict", "cls": "PolyhedralProjection", "module": "a5.projections.polyhedral", "attr": "_inverse_triangle_cache",
     "func": "_get_triangle_constants", "key_var": "cache_key", "key_param": "spherical_triangle"},
]
DIAGNOSTICS = [
    {"cls": "CRS", "module": "a5.projections.crs", "attr": "_invocations", "func": "get_vertex"},
]


class Finding:
    def __init__(self, name, ok, detail, where=None, data=None):
        self.name, self.ok, self.detail, self.where, self.data = name, ok, detail, where, data or {}

    def to_json(self):
        return {"obligation": self.name, "ok": self.ok, "detail": self.detail, "where": self.where, "data": self.data}


def attr_writes(an, attr):
    """Every statement in the repository that writes `<x>.<attr>` or mutates the container held there."""
    out = []
    for q, fi in an.funcs.items():
        rel = fi.mod.path.replace(an.repo.root + "/", "")
        for node in ast.walk(fi.node):
            tgt = None
            if isinstance(node, (ast.Assign, ast.AugAssign, ast.AnnAssign)):
                targets = node.targets if isinstance(node, ast.Assign) else [node.target]
                for t in targets:
                    if isinstance(t, ast.Attribute) and t.attr == attr:
                        out.append((q, "%s:%d" % (rel, node.lineno), "assign", node))
                    if isinstance(t, ast.Subscript) and isinstance(t.value, ast.Attribute) and t.value.attr == attr:
                        out.append((q, "%s:%d" % (rel, node.lineno), "store", node))
            if isinstance(node, ast.Call) and isinstance(node.func, ast.Attribute) and isinstance(node.func.value, ast.Attribute) \
                    and node.func.value.attr == attr and node.func.attr in ("append", "extend", "insert", "pop", "remove", "clear",
                                                                            "sort", "reverse", "update", "setdefault", "popitem"):
                out.append((q, "%s:%d" % (rel, node.lineno), "call:" + node.func.attr, node))
            if isinstance(node, ast.Delete):
                for t in node.targets:
                    if isinstance(t, ast.Subscript) and isinstance(t.value, ast.Attribute) and t.value.attr == attr:
                        out.append((q, "%s:%d" % (rel, node.lineno), "del", node))
    return out


def _is_self_attr(e, attr):
    return isinstance(e, ast.Attribute) and e.attr == attr and isinstance(e.value, ast.Name) and e.value.id == "self"


def _unparse(e):
    return ast.unparse(e)


def check_list_slot_cache(an, c):
    """Structural contract of an index-addressed cache list."""
    out = []
    base = "cache/%s.%s" % (c["cls"], c["attr"])
    q = "%s.%s.%s" % (c["module"], c["cls"], c["func"])
    fi = an.funcs.get(q)
    if fi is None:
        return [Finding(base + "/shape", None, "CONTRACT-SHAPE-MISMATCH: %s not found" % q)]
    attr, iv = c["attr"], c["index_var"]
    # 1. every write to the attribute lives in the caching function (or is the empty initialisation in __init__)
    for (wq, where, kind, node) in attr_writes(an, attr):
        if wq == q:
            continue
        if wq.endswith(".__init__") and kind == "assign" and isinstance(node, (ast.Assign, ast.AnnAssign)) and \
                isinstance(node.value, (ast.List, ast.Dict)) and not (node.value.elts if isinstance(node.value, ast.List) else node.value.keys):
            continue
        out.append(Finding(base + "/only-written-by-its-fill-function", False, "%s writes .%s (%s)" % (wq, attr, kind), where))
    body = fi.node.body
    # 2. shape: growth loop, filled-guard, guarded fills, return of the slot
    guard_at = None
    problems = []
    for i, st in enumerate(body):
        if isinstance(st, ast.If) and isinstance(st.test, ast.Compare) and len(st.test.ops) == 1 and isinstance(st.test.ops[0], ast.IsNot) \
                and isinstance(st.test.left, ast.Subscript) and _is_self_attr(st.test.left.value, attr) \
                and isinstance(st.test.left.slice, ast.Name) and st.test.left.slice.id == iv \
                and isinstance(st.test.comparators[0], ast.Constant) and st.test.comparators[0].value is None \
                and len(st.body) == 1 and isinstance(st.body[0], ast.Return) and _unparse(st.body[0].value) == "self.%s[%s]" % (attr, iv):
            guard_at = i
            break
    if guard_at is None:
        out.append(Finding(base + "/filled-slot-is-returned-unchanged", False,
                           "no `if self.%s[%s] is not None: return self.%s[%s]` guard at the top level of %s" % (attr, iv, attr, iv, c["func"]),
                           "%s:%d" % (fi.mod.path.replace(an.repo.root + "/", ""), fi.node.lineno)))
        return out
    rel = fi.mod.path.replace(an.repo.root + "/", "")
    for i, st in enumerate(body):
        for node in ast.walk(st):
            if isinstance(node, ast.Assign):
                for t in node.targets:
                    if isinstance(t, ast.Subscript) and _is_self_attr(t.value, attr):
                        # a fill: after the guard, slot `index`, value = call of a method of self on parameters only
                        ok = i > guard_at and isinstance(t.slice, ast.Name) and t.slice.id == iv
                        val = node.value
                        okv = isinstance(val, ast.Call) and isinstance(val.func, ast.Attribute) and isinstance(val.func.value, ast.Name) \
                            and val.func.value.id == "self" and all(isinstance(a, ast.Name) and a.id in fi.params for a in val.args) and not val.keywords
                        if not ok:
                            problems.append(("fill-only-after-the-filled-guard", "slot written before the guard or at another index", node))
                        if not okv:
                            problems.append(("slot-value-is-a-function-of-the-key", "stored value is not `self.<method>(<key parameters>)`: %s" % _unparse(val), node))
                    if isinstance(t, ast.Attribute) and t.attr == attr:
                        problems.append(("container-never-replaced", "the cache container is re-bound", node))
            if isinstance(node, ast.Call) and isinstance(node.func, ast.Attribute) and _is_self_attr(node.func.value, attr):
                if node.func.attr == "append":
                    okg = len(node.args) == 1 and isinstance(node.args[0], ast.Constant) and node.args[0].value is None and i < guard_at \
                        and isinstance(st, ast.While) and _unparse(st.test) == "len(self.%s) <= %s" % (attr, iv)
                    if not okg:
                        problems.append(("grows-only-by-empty-slots", "append other than `while len(self.%s) <= %s: self.%s.append(None)`" % (attr, iv, attr), node))
                elif node.func.attr in ("extend", "insert", "pop", "remove", "clear", "sort", "reverse"):
                    problems.append(("grows-only-by-empty-slots", "mutator .%s()" % node.func.attr, node))
            if isinstance(node, (ast.AugAssign, ast.Assign)) and i < guard_at:
                tg = node.target if isinstance(node, ast.AugAssign) else node.targets[0]
                if isinstance(tg, ast.Name) and tg.id in c["key"]:
                    problems.append(("key-parameters-not-reassigned", "key parameter %s is reassigned" % tg.id, node))
    for name, det, node in problems:
        out.append(Finding(base + "/" + name, False, det, "%s:%d" % (rel, node.lineno)))
    if not problems:
        for name in ("fill-only-after-the-filled-guard", "slot-value-is-a-function-of-the-key", "grows-only-by-empty-slots",
                     "container-never-replaced", "filled-slot-is-returned-unchanged", "only-written-by-its-fill-function"):
            if not any(f.name.endswith(name) for f in out):
                out.append(Finding(base + "/" + name, True, "holds at every write site of .%s" % attr))
    return out


def check_dict_cache(an, c):
    out = []
    base = "cache/%s.%s" % (c["cls"], c["attr"])
    q = "%s.%s.%s" % (c["module"], c["cls"], c["func"])
    fi = an.funcs.get(q)
    if fi is None:
        return [Finding(base + "/shape", None, "CONTRACT-SHAPE-MISMATCH: %s not found" % q)]
    attr, kv = c["attr"], c["key_var"]
    rel = fi.mod.path.replace(an.repo.root + "/", "")
    for (wq, where, kind, node) in attr_writes(an, attr):
        if wq == q:
            continue
        if wq.endswith(".__init__") and kind == "assign" and isinstance(node, (ast.Assign, ast.AnnAssign)) and isinstance(node.value, ast.Dict) \
                and not node.value.keys:
            continue
        out.append(Finding(base + "/only-written-by-its-fill-function", False, "%s writes .%s (%s)" % (wq, attr, kind), where))
    problems = []
    # key: a tuple built from the key parameter's components by tuple(...) only
    key_ok = False
    for st in fi.node.body:
        if isinstance(st, ast.Assign) and len(st.targets) == 1 and isinstance(st.targets[0], ast.Name) and st.targets[0].id == kv:
            v = st.value
            names = set()
            ok = isinstance(v, ast.Tuple) and all(isinstance(x, ast.Call) and isinstance(x.func, ast.Name) and x.func.id == "tuple"
                                                    and len(x.args) == 1 and isinstance(x.args[0], ast.Name) for x in v.elts)
            if ok:
                names = {x.args[0].id for x in v.elts}
                # the names are the unpacked components of the key parameter
                for st2 in fi.node.body:
                    if isinstance(st2, ast.Assign) and isinstance(st2.targets[0], ast.Tuple) and isinstance(st2.value, ast.Name) \
                            and st2.value.id == c["key_param"] and {x.id for x in st2.targets[0].elts if isinstance(x, ast.Name)} == names:
                        key_ok = True
    if not key_ok:
        problems.append(("key-is-the-value-of-the-argument", "cache key is not the tuple of the argument's components", fi.node))
    stores = []
    for node in ast.walk(fi.node):
        if isinstance(node, ast.Assign):
            for t in node.targets:
                if isinstance(t, ast.Subscript) and _is_self_attr(t.value, attr):
                    stores.append(node)
    guarded = False
    for st in fi.node.body:
        if isinstance(st, ast.If) and _unparse(st.test) == "%s not in self.%s" % (kv, attr):
            inside = [n for n in ast.walk(st) if n in stores]
            if len(inside) == len(stores) and stores:
                guarded = True
                # no early return inside the fill block, key variable not reassigned
                for n in ast.walk(st):
                    if isinstance(n, ast.Return):
                        problems.append(("fill-only-when-absent", "return inside the fill block", n))
    if not guarded:
        problems.append(("fill-only-when-absent", "a store into .%s is not under `if %s not in self.%s`" % (attr, kv, attr), fi.node))
    for st in stores:
        if not (isinstance(st.targets[0].slice, ast.Name) and st.targets[0].slice.id == kv):
            problems.append(("fill-only-when-absent", "store at a key other than %s" % kv, st))
    for name, det, node in problems:
        out.append(Finding(base + "/" + name, False, det, "%s:%d" % (rel, node.lineno)))
    if not problems:
        for name in ("key-is-the-value-of-the-argument", "fill-only-when-absent", "only-written-by-its-fill-function"):
            if not any(f.name.endswith(name) for f in out):
                out.append(Finding(base + "/" + name, True, "holds at every write site of .%s" % attr))
    return out


def check_diagnostic(an, d):
    """A counter whose value only ever reaches `print`."""
    out = []
    base = "diagnostic/%s.%s" % (d["cls"], d["attr"])
    attr = d["attr"]
    bad = []
    for q, fi in an.funcs.items():
        rel = fi.mod.path.replace(an.repo.root + "/", "")
        parents = {}
        for n in ast.walk(fi.node):
            for ch in ast.iter_child_nodes(n):
                parents[ch] = n
        for n in ast.walk(fi.node):
            if isinstance(n, ast.Attribute) and n.attr == attr and isinstance(n.ctx, ast.Load):
                p = parents.get(n)
                # allowed: the test of an `if` whose body only prints
                okread = False
                cur = n
                while cur in parents:
                    par = parents[cur]
                    if isinstance(par, ast.If) and cur is par.test:
                        okread = all(isinstance(s, ast.Expr) and isinstance(s.value, ast.Call) and isinstance(s.value.func, ast.Name)
                                     and s.value.func.id == "print" for s in par.body) and not par.orelse
                        break
                    if isinstance(par, ast.stmt):
                        break
                    cur = par
                if not okread:
                    bad.append(("%s:%d" % (rel, n.lineno), q))
            if isinstance(n, (ast.Assign, ast.AugAssign)):
                tg = n.targets[0] if isinstance(n, ast.Assign) else n.target
                if isinstance(tg, ast.Attribute) and tg.attr == attr:
                    isinit = q.endswith(".__init__") and isinstance(n, ast.Assign) and isinstance(n.value, ast.Constant)
                    iscount = isinstance(n, ast.AugAssign) and isinstance(n.op, ast.Add) and isinstance(n.value, ast.Constant)
                    if not (isinit or iscount):
                        bad.append(("%s:%d" % (rel, n.lineno), q))
    if bad:
        for where, q in bad:
            out.append(Finding(base + "/value-only-reaches-print", False, "%s uses .%s outside the counter/print pattern" % (q, attr), where))
    else:
        out.append(Finding(base + "/value-only-reaches-print", True, "every read of .%s is the test of an if whose body only prints" % attr))
    return out


def allowed_attr_for_site(site):
    """Map a write site (function qualname) to the cache / diagnostic it belongs to, if any."""
    for c in CACHES:
        if site.func == "%s.%s.%s" % (c["module"], c["cls"], c["func"]) and getattr(site, "attr", None) == c["attr"]:
            return ("cache", c)
    for d in DIAGNOSTICS:
        if site.func == "%s.%s.%s" % (d["module"], d["cls"], d["func"]) and getattr(site, "attr", None) == d["attr"]:
            return ("diagnostic", d)
    return None


# ------------------------------------------------------------------------------------------------ F4
def _mentions(node, name):
    return any(isinstance(n, ast.Name) and n.id == name for n in ast.walk(node))


def full_def_params(fi):
    """Parameters that the function completely overwrites (components 0..k by constant index, unconditionally, at the
    top level of its body) before reading them."""
    out = set()
    for p in fi.params:
        written = set()
        ok = True
        for st in fi.node.body:
            if isinstance(st, ast.Expr) and isinstance(st.value, ast.Constant):
                continue
            if isinstance(st, ast.Assign) and len(st.targets) == 1 and isinstance(st.targets[0], ast.Subscript) \
                    and isinstance(st.targets[0].value, ast.Name) and st.targets[0].value.id == p \
                    and isinstance(st.targets[0].slice, ast.Constant) and isinstance(st.targets[0].slice.value, int):
                if _mentions(st.value, p):
                    ok = False
                    break
                written.add(st.targets[0].slice.value)
                continue
            if _mentions(st, p):
                # any other mention (read, conditional write) before the components are all written
                if isinstance(st, ast.Return) and isinstance(st.value, ast.Name) and st.value.id == p:
                    continue
                if written and written == set(range(len(written))) and len(written) >= 2:
                    break
                ok = False
                break
        if ok and written and written == set(range(len(written))) and len(written) >= 2:
            out.add(p)
    return out


def scratch_defined_before_use(an, g, via_func):
    """F4: in `via_func` the first statement that mentions the module-level scratch object passes it once, as an
    argument that the callee completely overwrites - so no value from an earlier activation is ever read."""
    fi = an.funcs.get(via_func)
    if fi is None:
        return False, "function not found"
    name = g[2]
    gmod = an.repo.module(g[1]) if an.repo.has_module(g[1]) else None
    if gmod is None or name not in gmod.assigns:
        return False, "not a module-level variable (memo table or derived object)"
    stmts = [n for n in ast.walk(fi.node) if isinstance(n, ast.stmt) and n is not fi.node]
    stmts.sort(key=lambda n: (n.lineno, n.col_offset))
    for st in stmts:
        if isinstance(st, (ast.If, ast.For, ast.While, ast.With, ast.Try, ast.FunctionDef)):
            hdr = st.test if isinstance(st, (ast.If, ast.While)) else (st.iter if isinstance(st, ast.For) else None)
            if hdr is not None and _mentions(hdr, name):
                return False, "first mention is in a condition (%s:%d)" % (fi.mod.path.split("/")[-1], st.lineno)
            continue
        if not _mentions(st, name):
            continue
        call = st.value if isinstance(st, (ast.Expr, ast.Assign)) and isinstance(getattr(st, "value", None), ast.Call) else None
        if call is None:
            return False, "first mention is not a defining call (%s:%d)" % (fi.mod.path.split("/")[-1], st.lineno)
        idxs = [i for i, a in enumerate(call.args) if isinstance(a, ast.Name) and a.id == name]
        others = sum(1 for a in call.args if not (isinstance(a, ast.Name) and a.id == name) and _mentions(a, name))
        if len(idxs) != 1 or others:
            return False, "first mention passes the object more than once (%s:%d)" % (fi.mod.path.split("/")[-1], st.lineno)
        # resolve callee
        f = call.func
        q = None
        if isinstance(f, ast.Name):
            r = an.resolve_global(fi.mod, f.id)
            if r and r[0] == "func":
                q = r[1]
        elif isinstance(f, ast.Attribute) and isinstance(f.value, ast.Name):
            r = an.resolve_global(fi.mod, f.value.id)
            if r and r[0] == "module" and r[1] is not None:
                rr = an.resolve_global(r[1], f.attr)
                if rr and rr[0] == "func":
                    q = rr[1]
        if q is None or q not in an.funcs:
            return False, "callee of the first mention is not a repository function"
        cfi = an.funcs[q]
        if idxs[0] < len(cfi.params) and cfi.params[idxs[0]] in full_def_params(cfi):
            return True, "first mention %s:%d overwrites it completely via %s" % (fi.mod.path.split("/")[-1], st.lineno, q.split(".")[-1])
        return False, "%s does not completely overwrite its argument %d" % (q.split(".")[-1], idxs[0])
    return False, "the object is reached without being named in this function"

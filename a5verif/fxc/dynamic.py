"""Dynamic confirmation of frame violations on the real code (run under /venv/bin/python, PYTHONPATH=/repo:/verif).

  schedule  - C16: call A runs under sys.settrace; at the h-th line event inside a given set of source files a
              second API call B runs to completion inline (a legal real-thread schedule: a switch at a bytecode-line
              boundary, context bound 2); A's value is compared with its sequential value.
  sequence  - C17: the value of each call in a sequence run in one interpreter is compared with the value of the same
              call in a fresh interpreter; arguments are compared with copies taken before the call; returned lists are
              mutated and the call repeated.
Reads one JSON request on stdin, prints one JSON line.
"""
import copy
import json
import os
import subprocess
import sys
import threading


def api_pool():
    import a5
    pts = [(12.34, 56.78), (-70.1, -33.3), (179.9, 0.1), (0.0, 89.5), (100.0, -45.0), (-179.5, 12.0), (45.0, 45.0)]
    calls = []
    for i, p in enumerate(pts):
        calls.append(("lonlat_to_cell", [list(p), 9 if i % 2 == 0 else 7]))
    for i, p in enumerate(pts[:4]):
        calls.append(("lonlat_to_cell", [list(p), 3 + i]))
    cells = []
    for p, r in ((pts[0], 9), (pts[1], 7), (pts[2], 5), (pts[3], 12), (pts[4], 2), (pts[5], 1), (pts[6], 0)):
        cells.append(a5.lonlat_to_cell(p, r))
    for c in cells:
        calls.append(("cell_to_lonlat", [c]))
        calls.append(("cell_to_boundary", [c]))
    calls.append(("cell_to_boundary", [cells[0], {"closed_ring": False, "segments": 3}]))
    calls.append(("cell_to_boundary", [cells[2], {"segments": "auto"}]))
    calls.append(("cell_to_children", [cells[4]]))
    calls.append(("cell_to_children", [0, 1]))
    calls.append(("cell_to_parent", [cells[0], 3]))
    calls.append(("get_resolution", [cells[3]]))
    calls.append(("get_res0_cells", []))
    calls.append(("get_num_cells", [7]))
    calls.append(("cell_area", [7]))
    kids = a5.cell_to_children(cells[4], 4)
    calls.append(("compact", [list(reversed(kids)) + kids[:3]]))
    calls.append(("compact", [a5.cell_to_children(0, 1)]))
    calls.append(("uncompact", [[cells[4], cells[5]], 3]))
    calls.append(("u64_to_hex", [cells[0]]))
    calls.append(("hex_to_u64", ["%x" % cells[0]]))
    return calls


def run_call(name, args):
    import a5
    return getattr(a5, name)(*copy.deepcopy(args))


def norm(v):
    return json.dumps(v, sort_keys=True, default=repr)


# ------------------------------------------------------------------------------------------------ C16
def with_preemption(name, args, files, hit, bcall):
    """Run A = name(*args); at the hit-th line event in one of `files`, run B inline."""
    state = {"n": 0, "done": False, "berr": None}

    def tracer(frame, event, arg):
        fn = frame.f_code.co_filename
        if fn.endswith(files) or (files == ("/a5/",) and "/a5/" in fn):
            return local
        return None

    def local(frame, event, arg):
        if event == "line" and not state["done"]:
            state["n"] += 1
            if state["n"] == hit:
                state["done"] = True
                sys.settrace(None)
                try:
                    run_call(*bcall)
                except Exception as e:      # B's own failure is not A's problem
                    state["berr"] = repr(e)
                sys.settrace(tracer)
        return local

    sys.settrace(tracer)
    try:
        try:
            val = ("ok", run_call(name, args))
        except Exception as e:
            val = ("raise", repr(e))
    finally:
        sys.settrace(None)
    return val, state["n"], state["done"]


def count_lines(name, args, files):
    _, n, _ = with_preemption(name, args, files, -1, None)
    return n


def schedule_search(files, max_hits=600, pairs=None, time_budget=None):
    import time
    t_end = time.time() + time_budget if time_budget else None
    files = tuple(files)
    pool = api_pool()
    seq = {}
    for k, (n, a) in enumerate(pool):
        try:
            seq[k] = ("ok", run_call(n, a))
        except Exception as e:
            seq[k] = ("raise", repr(e))
    # A candidates: calls that execute lines in the files; B candidates: a few heavy calls
    bs = [pool[1], pool[0], pool[16 if len(pool) > 16 else 0]]
    tried = 0
    for k, (n, a) in enumerate(pool):
        total = count_lines(n, a, files)
        if total == 0:
            continue
        step = max(1, total // max_hits)
        for b in bs:
            if b == (n, a):
                continue
            for hit in range(1, total + 1, step):
                if t_end is not None and time.time() > t_end:
                    return {"confirmed": False, "note": "no failing schedule among %d preemption points (context bound 2, time budget reached)" % tried,
                            "schedules_tried": tried}
                tried += 1
                val, _, done = with_preemption(n, a, files, hit, b)
                if done and norm(val) != norm(seq[k]):
                    return {"confirmed": True, "schedule": {"A": [n, a], "B": list(b), "files": list(files), "line_event": hit,
                                                            "of": total},
                            "observed": norm(val)[:300], "sequential": norm(seq[k])[:300], "schedules_tried": tried}
    return {"confirmed": False, "note": "no failing schedule among %d preemption points (context bound 2)" % tried, "schedules_tried": tried}


# ---- cold schedules: every schedule starts in a process that has imported a5 but never called it (lazy caches empty)
def _in_child(fn, *args):
    """Run fn(*args) in a forked child of this (cold) process and return its JSON-able result."""
    r, w = os.pipe()
    pid = os.fork()
    if pid == 0:
        try:
            os.close(r)
            try:
                out = fn(*args)
            except BaseException as e:      # noqa
                out = {"child_error": repr(e)}
            with os.fdopen(w, "w") as fh:
                fh.write(json.dumps(out, default=repr))
        finally:
            os._exit(0)
    os.close(w)
    with os.fdopen(r) as fh:
        data = fh.read()
    os.waitpid(pid, 0)
    return json.loads(data) if data else {"child_error": "no output"}


def _cold_seq(call):
    try:
        return norm(("ok", run_call(*call)))
    except Exception as e:
        return norm(("raise", repr(e)))


def _cold_sched(call, files, hit, bcall):
    val, n, done = with_preemption(call[0], call[1], tuple(files), hit, bcall)
    return {"val": norm(val), "n": n, "done": done}


def _cold_task(t):
    return _in_child(_cold_sched, *t)


def schedule_search_cold(max_hits=200, time_budget=60.0, workers=8):
    """Like schedule_search, but each schedule (and each sequential reference) runs in its own child forked from a
    process in which no library function has been called yet; B ranges over A itself (same face, same triangles) and
    two other calls; preemption points are line events in any library file."""
    import time
    import a5  # noqa  (import only: module-level initialisation, no API call in this process)
    from concurrent.futures import ThreadPoolExecutor
    t_end = time.time() + time_budget
    pool = _in_child(api_pool)
    if isinstance(pool, dict):
        return {"confirmed": False, "error": "pool: %s" % pool}
    pool = [tuple(c) for c in pool]
    files = ("/a5/",)
    tried = 0
    cands = [c for c in pool if c[0] in ("lonlat_to_cell", "cell_to_lonlat", "cell_to_boundary")][:12]
    with ThreadPoolExecutor(workers) as ex:
        for k, call in enumerate(cands):
            seq = _in_child(_cold_seq, call)
            total = _in_child(_cold_sched, call, files, -1, None)["n"]
            if not total:
                continue
            step = max(1, total // max_hits)
            for b in (call, cands[(k + 1) % len(cands)]):
                tasks = [(call, files, hit, b) for hit in range(1, total + 1, step)]
                for lo in range(0, len(tasks), workers * 4):
                    if time.time() > t_end:
                        return {"confirmed": False, "note": "no failing cold schedule among %d preemption points (context bound 2, time budget reached)" % tried,
                                "schedules_tried": tried}
                    chunk = tasks[lo:lo + workers * 4]
                    for t, o in zip(chunk, ex.map(_cold_task, chunk)):
                        tried += 1
                        if o.get("done") and o["val"] != seq:
                            return {"confirmed": True, "cold_start": True,
                                    "schedule": {"A": list(call), "B": list(t[3]), "files": "every library file", "line_event": t[2], "of": total,
                                                 "start": "fresh process, a5 imported, no call made before"},
                                    "observed": o["val"][:300], "sequential": seq[:300], "schedules_tried": tried}
    return {"confirmed": False, "note": "no failing cold schedule among %d preemption points (context bound 2)" % tried, "schedules_tried": tried}


# ------------------------------------------------------------------------------------------------ C17
FRESH_SNIPPET = """
import json, sys, copy
sys.path.insert(0, %r)
import a5
name, args = json.loads(sys.stdin.read())
try:
    v = ["ok", getattr(a5, name)(*args)]
except Exception as e:
    v = ["raise", repr(e)]
print(json.dumps(v, sort_keys=True, default=repr))
"""


def fresh_value(name, args, repo):
    p = subprocess.run([sys.executable, "-c", FRESH_SNIPPET % repo], input=json.dumps([name, args]), capture_output=True, text=True)
    return p.stdout.strip().splitlines()[-1] if p.stdout.strip() else "crash:" + p.stderr[-200:]


def sequence_search(repo, orders=3):
    import random
    import a5
    pool = api_pool()
    fresh = {}
    for k, (n, a) in enumerate(pool):
        fresh[k] = fresh_value(n, a, repo)
    tried = 0
    for o in range(orders):
        idx = list(range(len(pool)))
        random.Random(o).shuffle(idx)
        idx = idx + idx[: len(idx) // 2]          # warm-cache repeats
        hist = []
        for k in idx:
            n, a = pool[k]
            args = copy.deepcopy(a)
            before = copy.deepcopy(args)
            try:
                v = ["ok", getattr(a5, n)(*args)]
            except Exception as e:
                v = ["raise", repr(e)]
            tried += 1
            hist.append([n, a])
            got = json.dumps(v, sort_keys=True, default=repr)
            if got != fresh[k]:
                return {"confirmed": True, "history": hist[-6:], "call": [n, a], "observed": got[:300], "fresh_interpreter": fresh[k][:300],
                        "kind": "value depends on call history", "calls_tried": tried}
            if norm(args) != norm(before):
                return {"confirmed": True, "call": [n, a], "kind": "argument modified", "observed": norm(args)[:300], "before": norm(before)[:300]}
            # mutate the returned list and repeat
            if v[0] == "ok" and isinstance(v[1], list) and v[1]:
                ret = getattr(a5, n)(*copy.deepcopy(a))
                try:
                    ret.reverse()
                    ret.append(None)
                except Exception:
                    pass
                again = json.dumps(["ok", getattr(a5, n)(*copy.deepcopy(a))], sort_keys=True, default=repr)
                if again != fresh[k]:
                    return {"confirmed": True, "call": [n, a], "kind": "mutating the returned list changed a later result",
                            "observed": again[:300], "fresh_interpreter": fresh[k][:300]}
    return {"confirmed": False, "note": "no history dependence among %d calls in %d orders" % (tried, orders), "calls_tried": tried}


def real_threads(seconds=5.0):
    """Randomised real-thread schedules with a 1 microsecond switch interval (bounded, thorough tier)."""
    import time
    pool = api_pool()
    seq = {k: norm(("ok", run_call(n, a))) for k, (n, a) in enumerate(pool)}
    old = sys.getswitchinterval()
    sys.setswitchinterval(1e-6)
    bad = []
    stop = time.time() + seconds

    def worker(seed):
        import random
        r = random.Random(seed)
        while time.time() < stop and not bad:
            k = r.randrange(len(pool))
            n, a = pool[k]
            try:
                v = norm(("ok", run_call(n, a)))
            except Exception as e:
                v = norm(("raise", repr(e)))
            if v != seq[k]:
                bad.append({"call": [n, a], "observed": v[:300], "sequential": seq[k][:300]})
    ts = [threading.Thread(target=worker, args=(i,)) for i in range(6)]
    for t in ts:
        t.start()
    for t in ts:
        t.join()
    sys.setswitchinterval(old)
    if bad:
        return {"confirmed": True, "kind": "real threads, 1us switch interval", **bad[0]}
    return {"confirmed": False, "note": "no difference in %.0fs of 6 real threads" % seconds}


def main():
    req = json.loads(sys.stdin.read())
    kind = req["kind"]
    try:
        if kind == "schedule":
            out = schedule_search(req["files"], req.get("max_hits", 400), time_budget=req.get("time_budget"))
        elif kind == "one_schedule":
            sc = req["schedule"]
            call, b = (sc["A"][0], sc["A"][1]), (sc["B"][0], sc["B"][1])
            if req.get("cold"):
                import a5  # noqa
                seq = _in_child(_cold_seq, call)
                o = _in_child(_cold_sched, call, ("/a5/",), sc["line_event"], b)
                out = {"confirmed": bool(o.get("done") and o["val"] != seq), "observed": o.get("val", "")[:300], "sequential": seq[:300], "schedule": sc}
            else:
                try:
                    seq = norm(("ok", run_call(*call)))
                except Exception as e:
                    seq = norm(("raise", repr(e)))
                val, _, done = with_preemption(call[0], call[1], tuple(sc["files"]), sc["line_event"], b)
                out = {"confirmed": bool(done and norm(val) != seq), "observed": norm(val)[:300], "sequential": seq[:300], "schedule": sc}
        elif kind == "schedule_cold":
            out = schedule_search_cold(req.get("max_hits", 200), req.get("time_budget", 60.0))
        elif kind == "sequence":
            out = sequence_search(req["repo"], req.get("orders", 3))
        elif kind == "threads":
            out = real_threads(req.get("seconds", 5.0))
        else:
            out = {"confirmed": False, "error": "unknown kind"}
    except Exception as e:
        import traceback
        out = {"confirmed": False, "error": "%s: %s" % (type(e).__name__, e), "trace": traceback.format_exc()[-1500:]}
    print(json.dumps(out, default=repr))


if __name__ == "__main__":
    main()

"""fxc - frame / ownership analysis over the repository AST (re-read on every run).

Abstract values are sets of tags saying which objects a value may be, or may reach:
    ('fresh',)            allocated in the current activation
    ('imm',)              immutable (number, string, tuple of immutables, None, function, class)
    ('param', i)          the i-th parameter (self is parameter 0 of a method)
    ('global', mod, name) a module-level object
Mutation through a value mutates every non-fresh, non-immutable tag in its set (field-insensitive, flow-insensitive:
an over-approximation).  Each function gets a summary (parameters mutated, module-level objects mutated, what the
result may alias, which parameters it stores into which); callers are checked against callee summaries.
"""
import ast
import os

from ..pyvc.src import Repo

FRESH = ("fresh",)
IMM = ("imm",)

LIST_MUTATORS = {"append", "extend", "insert", "pop", "remove", "clear", "sort", "reverse", "update", "add", "discard",
                 "setdefault", "popitem", "__setitem__", "__delitem__"}
PURE_BUILTINS = {"len", "int", "float", "abs", "round", "sum", "isinstance", "bool", "str", "hex", "repr", "hash", "id",
                 "print", "range", "ord", "chr", "divmod", "pow", "format", "hasattr", "callable", "type", "all", "any"}
COPYING_BUILTINS = {"list", "tuple", "sorted", "set", "dict", "frozenset", "reversed", "enumerate", "zip", "map", "filter", "iter"}
SELECTING_BUILTINS = {"max", "min", "next", "getattr"}
IMMUTABLE_ANN = {"int", "float", "str", "bool", "bytes", "Degrees", "Radians", "LonLat", "Spherical", "Face", "Polar", "IJ", "KJ",
                 "Cartesian", "Barycentric", "Orientation", "Quaternary", "Flip", "OriginId", "FaceTriangleIndex", "Origin",
                 "None", "Vec2Tuple"}
ELEM_IMMUTABLE_ANN = {"List[int]", "List[float]", "List[str]", "Tuple[float, ...]", "List[LonLat]", "Contour", "Sequence[int]",
                      "Iterable[int]", "List[Quaternary]", "List[Flip]", "Pentagon", "SphericalPolygon", "SphericalTriangle",
                      "FaceTriangle", "List[Face]", "List[Cartesian]", "Vec2", "Vec3", "Quat", "List[Vec2]", "Tuple[float, float]",
                      "Tuple[Flip, Flip]", "mat2", "mat2d", "Tuple[Tuple[float, float], Tuple[float, float]]",
                      "Tuple[Tuple[float, float, float], Tuple[float, float, float]]"}
EXC_NAMES = {"ValueError", "IndexError", "TypeError", "KeyError", "ZeroDivisionError", "Exception", "AssertionError",
             "RuntimeError", "NotImplementedError", "OverflowError"}
DYNAMIC = {"setattr", "exec", "eval", "globals", "locals", "vars", "__import__", "delattr", "compile"}


class WriteSite:
    def __init__(self, target, where, func, how, via_func=None, via_where=None, attr=None):
        self.attr = attr          # attribute of the written object that holds the mutated container / value, if known
        self.target = target      # ('global', mod, name)
        self.where = where        # the statement that performs the store
        self.func = func
        self.how = how
        self.via_func = via_func or func        # the function that names the module-level object
        self.via_where = via_where or where

    def key(self):
        return (self.target, self.where, self.func, self.how, self.via_func, self.via_where, self.attr)

    def to_json(self):
        return {"target": list(self.target), "where": self.where, "function": self.func, "how": self.how,
                "via_function": self.via_func, "via_where": self.via_where, "attr": self.attr}


class Summary:
    def __init__(self):
        self.mut_params = set()
        self.mut_globals = {}        # ('global', mod, name) -> list of WriteSite (direct and transitive)
        self.read_globals = {}       # ('global', mod, name) -> list of where
        self.ret = set()
        self.stores = set()          # (dst param, src param): src may become reachable from dst
        self.escapes = set()         # params stored into module-level objects
        self.calls = set()
        self.dynamic = []
        self.unknown_calls = []
        self.ret_eimm_flag = True
        self.direct_globals = set()  # module-level mutable objects named in this function's own body
        self.param_sites = {}        # param index -> list of (where, func, how): the statements that mutate it

    def snapshot(self):
        return (frozenset(self.mut_params), frozenset(self.mut_globals), frozenset(self.ret), frozenset(self.stores),
                frozenset(self.escapes), frozenset((k, len(v)) for k, v in self.mut_globals.items()),
                frozenset(self.read_globals), self.ret_eimm_flag, sum(len(v) for v in self.param_sites.values()))


class FuncInfo:
    def __init__(self, qual, mod, node, cls):
        self.qual, self.mod, self.node, self.cls = qual, mod, node, cls
        self.params = [a.arg for a in node.args.args]
        self.ann = {a.arg: (ast.unparse(a.annotation) if a.annotation is not None else None) for a in node.args.args}


class Analysis:
    def __init__(self, repo_root):
        self.repo = Repo(repo_root)
        self.funcs = {}
        self.classes = {}            # class name -> (mod, ClassDef)
        self.methods_by_name = {}
        self.summaries = {}
        self.global_kind = {}        # ('global', mod, name) -> 'imm' | 'mutable' | 'singleton:<Class>'
        self.attr_eimm = {}          # (class, attr) -> every element ever stored in that attribute's container is immutable
        self.ret_eimm = {}           # function -> every returned container has immutable elements
        for mname in self.repo.all_modules("a5"):
            mod = self.repo.module(mname)
            for fname, node in mod.functions.items():
                self.funcs[mname + "." + fname] = FuncInfo(mname + "." + fname, mod, node, None)
            for cname, cnode in mod.classes.items():
                self.classes[cname] = (mod, cnode)
                for meth in cnode.body:
                    if isinstance(meth, ast.FunctionDef):
                        q = "%s.%s.%s" % (mname, cname, meth.name)
                        self.funcs[q] = FuncInfo(q, mod, meth, cname)
                        self.methods_by_name.setdefault(meth.name, []).append(q)
        for q in self.funcs:
            self.summaries[q] = Summary()

    # ------------------------------------------------------------------ module-level names
    def resolve_global(self, mod, name, depth=0):
        """-> ('func', qual) | ('class', name) | ('module', modinfo/None, pyname) | ('obj', tag) | ('imm',) | None"""
        if depth > 6:
            return None
        if name in mod.functions:
            return ("func", mod.name + "." + name)
        if name in mod.classes:
            return ("class", name)
        if name in mod.assigns:
            vals = mod.assigns[name]
            if len(vals) == 1 and isinstance(vals[0], ast.Name) and vals[0].id in mod.functions:
                return ("func", mod.name + "." + vals[0].id)
            tag = ("global", mod.name, name)
            if tag not in self.global_kind:
                self.global_kind[tag] = self.classify_global(mod, name, vals)
            if self.global_kind[tag] == "imm":
                return ("imm",)
            return ("obj", tag)
        if name in mod.imports:
            mname, attr = mod.imports[name]
            if attr is None:
                return ("module", self.repo.module(mname) if self.repo.has_module(mname) else None, mname)
            if self.repo.has_module(mname + "." + attr):
                return ("module", self.repo.module(mname + "." + attr), mname + "." + attr)
            if self.repo.has_module(mname):
                return self.resolve_global(self.repo.module(mname), attr, depth + 1)
            return ("external", mname, attr)
        return None

    def classify_global(self, mod, name, vals):
        """Immutable iff every module-level binding is a number/string/tuple-of-immutables expression."""
        def imm_expr(e):
            if isinstance(e, ast.Constant):
                return True
            if isinstance(e, ast.Tuple):
                return all(imm_expr(x) for x in e.elts)
            if isinstance(e, (ast.BinOp,)):
                return imm_expr(e.left) and imm_expr(e.right)
            if isinstance(e, ast.UnaryOp):
                return imm_expr(e.operand)
            if isinstance(e, ast.Name):
                r = self.resolve_global(mod, e.id, 1)
                return r is not None and r[0] in ("imm",)
            if isinstance(e, ast.Attribute):
                return isinstance(e.value, ast.Name) and e.value.id == "math"
            if isinstance(e, ast.Subscript):
                return imm_expr(e.value) if not isinstance(e.value, ast.Name) else self._name_is_imm_tuple(mod, e.value.id)
            if isinstance(e, ast.Call):
                f = e.func
                if isinstance(f, ast.Name) and f.id == "cast" and len(e.args) == 2:
                    return imm_expr(e.args[1])
                if isinstance(f, ast.Attribute) and isinstance(f.value, ast.Name) and f.value.id == "math":
                    return True
                if isinstance(f, ast.Name) and f.id in ("float", "int", "str", "bool", "tuple", "frozenset", "len", "abs", "round"):
                    return f.id != "tuple" or all(imm_expr(a) for a in e.args)
                if isinstance(f, ast.Name) and f.id in mod.functions:
                    fn = mod.functions[f.id]
                    return fn.returns is not None and ast.unparse(fn.returns) in IMMUTABLE_ANN
                if isinstance(f, ast.Name) and f.id in mod.classes:
                    return False
            if isinstance(e, ast.IfExp):
                return imm_expr(e.body) and imm_expr(e.orelse)
            return False
        if all(imm_expr(v) for v in vals):
            return "imm"
        if len(vals) == 1 and isinstance(vals[0], ast.Call) and isinstance(vals[0].func, ast.Name):
            r = self.resolve_global(mod, vals[0].func.id, 1)
            if r and r[0] == "class":
                return "singleton:" + r[1]
        return "mutable"

    def _name_is_imm_tuple(self, mod, name):
        r = self.resolve_global(mod, name, 1)
        return r is not None and r[0] == "imm"

    # ------------------------------------------------------------------ per-function analysis
    def analyze_all(self):
        changed = True
        rounds = 0
        while changed and rounds < 30:
            changed = False
            rounds += 1
            for q, fi in self.funcs.items():
                before = self.summaries[q].snapshot()
                FuncAnalyzer(self, fi).run()
                if self.summaries[q].snapshot() != before:
                    changed = True
        return rounds

    def reachable(self, roots):
        seen = set()
        work = list(roots)
        while work:
            q = work.pop()
            if q in seen or q not in self.summaries:
                continue
            seen.add(q)
            work.extend(self.summaries[q].calls)
        return seen


class FuncAnalyzer(ast.NodeVisitor):
    def __init__(self, an, fi):
        self.an = an
        self.fi = fi
        self.sum = an.summaries[fi.qual]
        self.env = {}
        self.types = {}            # local name -> class name when known
        self.eimm_env = {}         # local name -> all bindings are containers of immutables (greatest fixpoint)
        self.rel = fi.mod.path.replace(an.repo.root + "/", "")
        for i, p in enumerate(fi.params):
            ann = fi.ann.get(p)
            if ann is not None and self.ann_immutable(ann):
                self.env[p] = {IMM}
            else:
                self.env[p] = {("param", i)}
            if i == 0 and fi.cls is not None and p == "self":
                self.types[p] = fi.cls
            elif ann is not None and ann.strip('"\'') in an.classes:
                self.types[p] = ann.strip('"\'')

    def ann_immutable(self, ann):
        a = ann.strip('"\'')
        if a in IMMUTABLE_ANN:
            return True
        if a.startswith("Optional[") and a[9:-1] in IMMUTABLE_ANN:
            return True
        if a.startswith("Tuple[") or a.startswith("Literal[") or a.startswith("Union[int") or a == "Tuple":
            return True
        return False

    def elem_immutable(self, tagset, node=None):
        """Tag-level fallback: only parameters annotated as containers of immutables qualify."""
        for t in tagset:
            if t[0] == "param":
                ann = self.fi.ann.get(self.fi.params[t[1]])
                if ann is None or ann.strip('"\'') not in ELEM_IMMUTABLE_ANN:
                    return False
            elif t[0] == "global":
                return False
        return True

    def eimm(self, e):
        """Every element (one level down) of the value of expression e is immutable."""
        if isinstance(e, ast.Name):
            if e.id in self.fi.params:
                ann = self.fi.ann.get(e.id)
                if ann is not None and (ann.strip('"\'') in ELEM_IMMUTABLE_ANN or self.ann_immutable(ann)):
                    return True
                return self.eimm_env.get(e.id, False) if e.id in self.eimm_env else False
            if e.id in self.env:
                return self.eimm_env.get(e.id, True)
            r = self.an.resolve_global(self.fi.mod, e.id)
            return r is not None and r[0] == "imm"
        if isinstance(e, ast.Constant):
            return True
        if isinstance(e, ast.Attribute):
            t = self.type_of(e.value)
            if t is not None:
                c, seen = t, 0
                while c in self.an.classes and seen < 5:
                    if (c, e.attr) in self.an.attr_eimm:
                        return self.an.attr_eimm[(c, e.attr)]
                    cn = self.an.classes[c][1]
                    if cn.bases and isinstance(cn.bases[0], ast.Name):
                        c = cn.bases[0].id
                    else:
                        break
                    seen += 1
            return False
        if isinstance(e, ast.Subscript):
            if isinstance(e.slice, ast.Slice):
                return self.eimm(e.value)
            return self.quiet_val(e) == {IMM}
        if isinstance(e, (ast.List, ast.Tuple, ast.Set)):
            return all(self.quiet_val(x) == {IMM} for x in e.elts)
        if isinstance(e, (ast.ListComp, ast.GeneratorExp, ast.SetComp)):
            self.quiet_val(e)
            return self.quiet_val(e.elt) == {IMM}
        if isinstance(e, ast.BinOp):
            return self.eimm(e.left) and self.eimm(e.right)
        if isinstance(e, ast.IfExp):
            return self.eimm(e.body) and self.eimm(e.orelse)
        if isinstance(e, ast.BoolOp):
            return all(self.eimm(x) for x in e.values)
        if isinstance(e, ast.Call):
            f = e.func
            if isinstance(f, ast.Name) and f.id not in self.env:
                r = self.an.resolve_global(self.fi.mod, f.id)
                if r is None:
                    if f.id in COPYING_BUILTINS and e.args:
                        return all(self.eimm(a) for a in e.args)
                    if f.id == "cast" and len(e.args) == 2:
                        return self.eimm(e.args[1])
                    return f.id in PURE_BUILTINS
                if r[0] == "func":
                    return self.an.ret_eimm.get(r[1], True)
                if r[0] == "external" and r[2] == "cast" and len(e.args) == 2:
                    return self.eimm(e.args[1])
                return False
            if isinstance(f, ast.Attribute):
                if isinstance(f.value, ast.Name) and f.value.id not in self.env:
                    r = self.an.resolve_global(self.fi.mod, f.value.id)
                    if r is not None and r[0] == "module":
                        if r[1] is None:
                            return True
                        rr = self.an.resolve_global(r[1], f.attr)
                        if rr and rr[0] == "func":
                            return self.an.ret_eimm.get(rr[1], True)
                        return False
                cands = self.resolve_method(f)
                if cands:
                    return all(self.an.ret_eimm.get(q, True) for q in cands)
                if f.attr in ("copy",):
                    return self.eimm(f.value)
                return self.quiet_val(e) == {IMM}
        return self.quiet_val(e) == {IMM}

    def quiet_val(self, e):
        return self.val(e)

    def where(self, node):
        return "%s:%d" % (self.rel, getattr(node, "lineno", 0))

    def run(self):
        # flow-insensitive: iterate the body until the local environment is stable
        for _ in range(6):
            before = {k: frozenset(v) for k, v in self.env.items()}
            nb = (len(self.sum.mut_params), sum(len(v) for v in self.sum.mut_globals.values()), len(self.sum.ret), len(self.sum.stores))
            for st in self.fi.node.body:
                self.visit(st)
            after = {k: frozenset(v) for k, v in self.env.items()}
            na = (len(self.sum.mut_params), sum(len(v) for v in self.sum.mut_globals.values()), len(self.sum.ret), len(self.sum.stores))
            if before == after and nb == na:
                break

    # ---- values
    def val(self, e):
        m = getattr(self, "v_" + type(e).__name__, None)
        if m is None:
            for c in ast.iter_child_nodes(e):
                if isinstance(c, ast.expr):
                    self.val(c)
            return {FRESH}
        return m(e)

    def v_Constant(self, e):
        return {IMM}

    def v_JoinedStr(self, e):
        for c in e.values:
            if isinstance(c, ast.FormattedValue):
                self.val(c.value)
        return {IMM}

    def v_Name(self, e):
        if e.id in self.env:
            return set(self.env[e.id])
        r = self.an.resolve_global(self.fi.mod, e.id)
        if r is None:
            return {IMM}           # builtins (True/None handled as constants), exception classes, ...
        if r[0] == "obj":
            self.sum.read_globals.setdefault(r[1], []).append(self.where(e))
            self.sum.direct_globals.add(r[1])
            return {r[1]}
        return {IMM}

    def v_Attribute(self, e):
        base = e.value
        if isinstance(base, ast.Name) and base.id not in self.env:
            r = self.an.resolve_global(self.fi.mod, base.id)
            if r is not None and r[0] == "module":
                if r[1] is not None:
                    rr = self.an.resolve_global(r[1], e.attr)
                    if rr is not None and rr[0] == "obj":
                        self.sum.read_globals.setdefault(rr[1], []).append(self.where(e))
                        self.sum.direct_globals.add(rr[1])
                        return {rr[1]}
                return {IMM}
        return self.val(base) | {IMM}

    def v_Subscript(self, e):
        b = self.val(e.value)
        self.val(e.slice) if isinstance(e.slice, ast.expr) else None
        ei = self.eimm(e.value)
        if isinstance(e.slice, ast.Slice):
            return {FRESH} | (set() if ei else {t for t in b if t not in (FRESH, IMM)})
        if ei:
            return {IMM}
        return b | {IMM}

    def v_Tuple(self, e):
        out = {IMM}
        for x in e.elts:
            out |= {t for t in self.val(x) if t != IMM}
        return out if out != {IMM} else {IMM}

    def v_List(self, e):
        out = {FRESH}
        for x in e.elts:
            out |= {t for t in self.val(x) if t not in (IMM,)}
        return out

    v_Set = v_List

    def v_Dict(self, e):
        out = {FRESH}
        for x in list(e.keys) + list(e.values):
            if x is not None:
                out |= {t for t in self.val(x) if t != IMM}
        return out

    def v_BinOp(self, e):
        a, b = self.val(e.left), self.val(e.right)
        if isinstance(e.op, (ast.Add, ast.Mult)):
            # list concatenation / repetition builds a new list that shares elements
            keep = set()
            for s, ex in ((a, e.left), (b, e.right)):
                if not self.eimm(ex):
                    keep |= {t for t in s if t not in (FRESH, IMM)}
            return {FRESH, IMM} | keep
        return {IMM}

    def v_UnaryOp(self, e):
        self.val(e.operand)
        return {IMM}

    def v_Compare(self, e):
        self.val(e.left)
        for c in e.comparators:
            self.val(c)
        return {IMM}

    def v_BoolOp(self, e):
        out = set()
        for x in e.values:
            out |= self.val(x)
        return out

    def v_IfExp(self, e):
        self.val(e.test)
        return self.val(e.body) | self.val(e.orelse)

    def v_Lambda(self, e):
        return {IMM}

    def _comp(self, e):
        for g in e.generators:
            it = self.val(g.iter)
            self.bind(g.target, {IMM} if self.eimm(g.iter) else it)
            for c in g.ifs:
                self.val(c)
        if isinstance(e, ast.DictComp):
            v = self.val(e.key) | self.val(e.value)
        else:
            v = self.val(e.elt)
        return {FRESH} | {t for t in v if t != IMM}

    v_ListComp = v_SetComp = v_DictComp = v_GeneratorExp = _comp

    def v_Starred(self, e):
        return self.val(e.value)

    # ---- calls
    def type_of(self, e):
        if isinstance(e, ast.Name):
            if e.id in self.types:
                return self.types[e.id]
            if e.id not in self.env:
                r = self.an.resolve_global(self.fi.mod, e.id)
                if r and r[0] == "obj":
                    k = self.an.global_kind.get(r[1], "")
                    if k.startswith("singleton:"):
                        return k.split(":", 1)[1]
        if isinstance(e, ast.Attribute) and isinstance(e.value, ast.Name) and e.value.id == "self" and self.fi.cls:
            return self.attr_type(self.fi.cls, e.attr)
        if isinstance(e, ast.Attribute) and isinstance(e.value, ast.Name):
            # module.singleton
            r = self.an.resolve_global(self.fi.mod, e.value.id) if e.value.id not in self.env else None
            if r and r[0] == "module" and r[1] is not None:
                rr = self.an.resolve_global(r[1], e.attr)
                if rr and rr[0] == "obj":
                    k = self.an.global_kind.get(rr[1], "")
                    if k.startswith("singleton:"):
                        return k.split(":", 1)[1]
        if isinstance(e, ast.Call):
            f = e.func
            if isinstance(f, ast.Name):
                r = self.an.resolve_global(self.fi.mod, f.id) if f.id not in self.env else None
                if r and r[0] == "class":
                    return r[1]
                if r and r[0] == "func":
                    return self.ret_type(r[1])
            if isinstance(f, ast.Attribute):
                qs = self.resolve_method(f)
                ts = {self.ret_type(q) for q in qs}
                if len(ts) == 1:
                    return ts.pop()
        return None

    def ret_type(self, q):
        fi = self.an.funcs.get(q)
        if fi is None or fi.node.returns is None:
            return None
        a = ast.unparse(fi.node.returns).strip('"\'')
        return a if a in self.an.classes else None

    def attr_type(self, cname, attr):
        seen = 0
        while cname in self.an.classes and seen < 5:
            mod, cnode = self.an.classes[cname]
            for meth in cnode.body:
                if isinstance(meth, ast.FunctionDef) and meth.name == "__init__":
                    for st in ast.walk(meth):
                        if isinstance(st, ast.Assign) and len(st.targets) == 1 and isinstance(st.targets[0], ast.Attribute) \
                                and isinstance(st.targets[0].value, ast.Name) and st.targets[0].value.id == "self" \
                                and st.targets[0].attr == attr and isinstance(st.value, ast.Call) and isinstance(st.value.func, ast.Name):
                            r = self.an.resolve_global(mod, st.value.func.id)
                            if r and r[0] == "class":
                                return r[1]
            bases = cnode.bases
            if bases and isinstance(bases[0], ast.Name):
                cname = bases[0].id
            else:
                break
            seen += 1
        return None

    def resolve_method(self, f):
        """Candidate callees of the method call `f.value . f.attr (...)`."""
        t = self.type_of(f.value)
        name = f.attr
        if t is not None:
            c = t
            seen = 0
            while c in self.an.classes and seen < 5:
                mod, cnode = self.an.classes[c]
                q = "%s.%s.%s" % (mod.name, c, name)
                if q in self.an.funcs:
                    return [q]
                if cnode.bases and isinstance(cnode.bases[0], ast.Name):
                    c = cnode.bases[0].id
                else:
                    break
                seen += 1
            return []
        return list(self.an.methods_by_name.get(name, []))

    def v_Call(self, e):
        f = e.func
        argv = [self.val(a) for a in e.args]
        kwv = {k.arg: self.val(k.value) for k in e.keywords}
        # module function / class / builtin by bare name
        if isinstance(f, ast.Name) and f.id not in self.env:
            r = self.an.resolve_global(self.fi.mod, f.id)
            if r is None:
                return self.builtin_call(f.id, e, argv, kwv)
            if r[0] == "func":
                return self.apply(r[1], e, argv, kwv, None)
            if r[0] == "class":
                return self.construct(r[1], e, argv, kwv)
            if r[0] == "external":
                if r[2] == "cast" and len(argv) == 2:
                    return argv[1]
                return {IMM}
            return {IMM}
        if isinstance(f, ast.Attribute):
            # module.function
            if isinstance(f.value, ast.Name) and f.value.id not in self.env:
                r = self.an.resolve_global(self.fi.mod, f.value.id)
                if r is not None and r[0] == "module":
                    if r[1] is None:
                        return {IMM}        # math.*, typing.*
                    rr = self.an.resolve_global(r[1], f.attr)
                    if rr and rr[0] == "func":
                        return self.apply(rr[1], e, argv, kwv, None)
                    if rr and rr[0] == "class":
                        return self.construct(rr[1], e, argv, kwv)
                    return {IMM}
            recv = self.val(f.value)
            cands = self.resolve_method(f)
            t = self.type_of(f.value)
            if cands:
                out = set()
                for q in cands:
                    out |= self.apply(q, e, [recv] + argv, kwv, f)
                if t is None and f.attr in LIST_MUTATORS:
                    self.mutate(recv, e, "method .%s()" % f.attr)
                return out
            # builtin container / unknown receiver
            if f.attr in LIST_MUTATORS:
                self.mutate(recv, e, "method .%s()" % f.attr)
                stored = set()
                for a in argv:
                    stored |= {x for x in a if x != IMM}
                self.store_into(recv, stored, e)
                self.note_attr_store(f.value, [a for a in e.args], f.attr)
                return {IMM} | (recv if f.attr in ("pop", "setdefault") and not self.eimm(f.value) else set())
            if f.attr in ("get", "items", "values", "keys", "copy", "index", "count", "clone"):
                if f.attr == "copy":
                    return {FRESH} | (set() if self.eimm(f.value) else {t2 for t2 in recv if t2 not in (FRESH, IMM)})
                return recv | {IMM} if not self.eimm(f.value) else {IMM}
            return {IMM} | {t2 for t2 in recv if t2 not in (FRESH, IMM)}
        # call through a local variable holding a function
        self.sum.unknown_calls.append(self.where(e))
        return {FRESH}

    def builtin_call(self, name, e, argv, kwv):
        if name in DYNAMIC:
            self.sum.dynamic.append((name, self.where(e)))
            return {FRESH}
        if name in PURE_BUILTINS or name in EXC_NAMES:
            return {IMM}
        if name in COPYING_BUILTINS:
            out = {FRESH}
            for a, ex in zip(argv, e.args):
                if not self.eimm(ex):
                    out |= {t for t in a if t not in (FRESH, IMM)}
            return out
        if name in SELECTING_BUILTINS:
            out = {IMM}
            for a in argv:
                out |= a
            return out
        if name == "cast" and len(argv) == 2:
            return argv[1]
        if name == "super":
            return set(self.env.get("self", {FRESH}))
        return {IMM}

    def construct(self, cname, e, argv, kwv):
        mod, cnode = self.an.classes[cname]
        # NamedTuple / TypedDict: immutable record / fresh dict that may hold its arguments
        bases = [ast.unparse(b) for b in cnode.bases]
        out = {FRESH}
        if any("NamedTuple" in b for b in bases):
            out = {IMM}
        held = set()
        for a in list(argv) + list(kwv.values()):
            held |= {t for t in a if t not in (IMM, FRESH)}
        init = None
        c = cname
        seen = 0
        while c in self.an.classes and seen < 5:
            m2, cn2 = self.an.classes[c]
            q = "%s.%s.__init__" % (m2.name, c)
            if q in self.an.funcs:
                init = q
                break
            if cn2.bases and isinstance(cn2.bases[0], ast.Name):
                c = cn2.bases[0].id
            else:
                break
            seen += 1
        if init is None:
            return out | held
        s = self.an.summaries[init]
        self.sum.calls.add(init)
        self.import_effects(init, e, [{FRESH}] + argv, kwv)
        # arguments stored into self become reachable from the new object
        fi = self.an.funcs[init]
        for (dst, src) in s.stores:
            if dst == 0 and src >= 1:
                a = self.arg_for(fi, src, [{FRESH}] + argv, kwv)
                out |= {t for t in a if t not in (IMM, FRESH)}
        return out

    def arg_for(self, fi, idx, argv, kwv):
        if idx < len(argv):
            return argv[idx]
        name = fi.params[idx] if idx < len(fi.params) else None
        if name in kwv:
            return kwv[name]
        return {IMM}

    def memoised(self, fi):
        """functools.lru_cache / cache (or any *cache* decorator): calls write a shared table and hand out shared objects."""
        for d in fi.node.decorator_list:
            t = ast.unparse(d)
            if "cache" in t.lower():
                return True
        return False

    def apply(self, q, e, argv, kwv, fnode):
        self.sum.calls.add(q)
        s = self.an.summaries.get(q)
        if s is None:
            return {FRESH}
        fi = self.an.funcs[q]
        self.import_effects(q, e, argv, kwv)
        if self.memoised(fi):
            tag = ("global", fi.mod.name, fi.node.name + "@memo")
            self.an.global_kind[tag] = "mutable"
            self.mutate({tag}, e, "memoising decorator on %s" % fi.node.name)
            self.sum.direct_globals.add(tag)
            if any(t not in (IMM,) for t in s.ret):
                return {tag}
        out = set()
        for t in s.ret:
            if t[0] == "param":
                out |= self.arg_for(fi, t[1], argv, kwv)
            else:
                out.add(t)
        if not out:
            out = {IMM}
        return out

    def import_effects(self, q, e, argv, kwv):
        s = self.an.summaries[q]
        fi = self.an.funcs[q]
        for i in s.mut_params:
            self.mutate(self.arg_for(fi, i, argv, kwv), e, "argument %d of %s" % (i, q.split(".", 2)[-1]),
                        origin=s.param_sites.get(i))
        for (dst, src) in s.stores:
            self.store_into(self.arg_for(fi, dst, argv, kwv), {t for t in self.arg_for(fi, src, argv, kwv) if t != IMM}, e)
        for src in s.escapes:
            self.note_escape(self.arg_for(fi, src, argv, kwv))
        for g, sites in s.mut_globals.items():
            lst = self.sum.mut_globals.setdefault(g, [])
            have = {w.key() for w in lst}
            for w in sites:
                if w.key() not in have:
                    lst.append(w)
                    have.add(w.key())
        for g, ws in s.read_globals.items():
            self.sum.read_globals.setdefault(g, [])

    # ---- effects
    def mutate(self, tagset, node, how, origin=None):
        """origin: the statements (where, func, how) inside callees that perform the write, when known."""
        sites = list(origin) if origin else [(self.where(node), self.fi.qual, how, self.attr_of(node))]
        for t in tagset:
            if t[0] == "param":
                self.sum.mut_params.add(t[1])
                lst = self.sum.param_sites.setdefault(t[1], [])
                for st in sites:
                    if st not in lst and len(lst) < 60:
                        lst.append(st)
            elif t[0] == "global":
                lst = self.sum.mut_globals.setdefault(t, [])
                have = {x.key() for x in lst}
                for (wh, fn, hw, at) in sites:
                    w = WriteSite(t, wh, fn, hw, self.fi.qual, self.where(node), at)
                    if w.key() not in have:
                        lst.append(w)
                        have.add(w.key())

    def attr_of(self, node):
        """Name of the attribute through which a store goes: x.A = v, x.A[i] = v, x.A.append(v), del x.A[i]."""
        n = node
        if isinstance(n, ast.Call) and isinstance(n.func, ast.Attribute):
            n = n.func.value
        elif isinstance(n, ast.Subscript):
            n = n.value
        elif isinstance(n, ast.Attribute):
            return n.attr
        if isinstance(n, ast.Subscript):
            n = n.value
        if isinstance(n, ast.Attribute):
            return n.attr
        return None

    def store_into(self, dst, src, node):
        src = {t for t in src if t not in (IMM,)}
        for d in dst:
            if d[0] == "param":
                for s in src:
                    if s[0] == "param" and s[1] != d[1]:
                        self.sum.stores.add((d[1], s[1]))
            elif d[0] == "global":
                self.note_escape(src)

    def note_escape(self, tagset):
        for t in tagset:
            if t[0] == "param":
                self.sum.escapes.add(t[1])

    def note_attr_store(self, container_expr, value_exprs, how):
        """`X.attr[i] = v`, `X.attr.append(v)`, `X.attr = v`: element immutability of (class of X).attr."""
        if isinstance(container_expr, ast.Attribute):
            t = self.type_of(container_expr.value)
            if t is not None:
                key = (t, container_expr.attr)
                ok = self.an.attr_eimm.get(key, True)
                for v in value_exprs:
                    if how == "whole":
                        ok = ok and self.eimm(v)
                    elif how == "extend":
                        ok = ok and self.eimm(v)
                    else:
                        ok = ok and self.quiet_val(v) == {IMM}
                self.an.attr_eimm[key] = ok
        elif isinstance(container_expr, ast.Name) and container_expr.id in self.env:
            ok = self.eimm_env.get(container_expr.id, True)
            for v in value_exprs:
                ok = ok and (self.eimm(v) if how in ("whole", "extend") else self.quiet_val(v) == {IMM})
            self.eimm_env[container_expr.id] = ok

    def bind(self, target, tagset, value_expr=None):
        if isinstance(target, ast.Name):
            self.env.setdefault(target.id, set()).update(tagset)
            if value_expr is not None:
                self.eimm_env[target.id] = self.eimm_env.get(target.id, True) and self.eimm(value_expr)
            elif tagset != {IMM}:
                self.eimm_env[target.id] = False
        elif isinstance(target, (ast.Tuple, ast.List)):
            for x in target.elts:
                self.bind(x, {IMM} if (value_expr is not None and self.eimm(value_expr)) else tagset)
        elif isinstance(target, ast.Starred):
            self.bind(target.value, tagset)
        elif isinstance(target, (ast.Subscript, ast.Attribute)):
            base = self.val(target.value)
            if isinstance(target, ast.Subscript) and isinstance(target.slice, ast.expr):
                self.val(target.slice)
            how = "item assignment" if isinstance(target, ast.Subscript) else "attribute .%s =" % target.attr
            if value_expr is not None:
                if isinstance(target, ast.Subscript):
                    self.note_attr_store(target.value, [value_expr], "elem")
                else:
                    self.note_attr_store(target, [value_expr], "whole")
            self.mutate(base, target, how)
            self.store_into(base, tagset, target)
            # stored values become reachable from every local that may be the container
            if isinstance(target.value, ast.Name) and target.value.id in self.env:
                self.env[target.value.id].update({t for t in tagset if t not in (IMM,)})

    # ---- statements
    def visit_Assign(self, st):
        v = self.val(st.value)
        for t in st.targets:
            self.bind(t, v, st.value)
            if isinstance(t, ast.Name):
                ty = self.type_of(st.value)
                if ty:
                    self.types[t.id] = ty

    def visit_AnnAssign(self, st):
        if st.value is not None:
            self.bind(st.target, self.val(st.value), st.value)

    def visit_AugAssign(self, st):
        v = self.val(st.value)
        if isinstance(st.target, ast.Name):
            cur = self.env.get(st.target.id)
            if cur is None:
                r = self.an.resolve_global(self.fi.mod, st.target.id)
                if r and r[0] in ("obj", "imm"):
                    tag = ("global", self.fi.mod.name, st.target.id)
                    self.mutate({tag}, st, "augmented assignment to module variable")
            else:
                # in-place operators mutate lists: x += [..]
                if any(t not in (IMM,) for t in cur) and isinstance(st.op, (ast.Add, ast.Mult)):
                    self.mutate({t for t in cur if t != FRESH}, st, "augmented assignment")
                self.env[st.target.id].update(v)
        else:
            self.bind(st.target, v)

    def visit_Delete(self, st):
        for t in st.targets:
            if isinstance(t, (ast.Subscript, ast.Attribute)):
                self.mutate(self.val(t.value), t, "del")

    def visit_Global(self, st):
        for n in st.names:
            tag = ("global", self.fi.mod.name, n)
            self.an.global_kind[tag] = "mutable"
            self.mutate({tag}, st, "global statement (rebinding)")

    def visit_Return(self, st):
        if st.value is not None:
            self.sum.ret |= self.val(st.value)
            if not self.eimm(st.value):
                self.sum.ret_eimm_flag = False
                self.an.ret_eimm[self.fi.qual] = False
        else:
            self.sum.ret.add(IMM)

    def visit_Expr(self, st):
        self.val(st.value)

    def visit_For(self, st):
        it = self.val(st.iter)
        self.bind(st.target, {IMM} if self.eimm(st.iter) else it)
        for s in st.body + st.orelse:
            self.visit(s)

    def visit_While(self, st):
        self.val(st.test)
        for s in st.body + st.orelse:
            self.visit(s)

    def visit_If(self, st):
        self.val(st.test)
        for s in st.body + st.orelse:
            self.visit(s)

    def visit_With(self, st):
        for it in st.items:
            v = self.val(it.context_expr)
            if it.optional_vars is not None:
                self.bind(it.optional_vars, v)
        for s in st.body:
            self.visit(s)

    def visit_Try(self, st):
        for s in st.body + st.orelse + st.finalbody:
            self.visit(s)
        for h in st.handlers:
            for s in h.body:
                self.visit(s)

    def visit_Raise(self, st):
        if st.exc is not None:
            self.val(st.exc)

    def visit_Assert(self, st):
        self.val(st.test)

    def visit_FunctionDef(self, st):
        self.sum.unknown_calls.append(self.where(st) + " (nested def)")

    def visit_ClassDef(self, st):
        pass

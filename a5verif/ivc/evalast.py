"""Evaluation of straight-line binary64 repository code (re-read from the AST on every run) over jets.

Accepted: assignments, tuple unpacking, return, + - * / unary -, math.sin/cos/pi, indexing of constant tuples,
typing.cast, calls to repository functions and methods of the same kind, module constants.  Anything else
(branches on symbolic values, loops, other library calls) raises Unsupported: the check is then undecided."""
import ast
import math

from ..pyvc.src import Repo, ShapeMismatch
from .jets import J, jsin, jcos


class Unsupported(Exception):
    pass


class _Return(Exception):
    def __init__(self, v):
        self.v = v


class Obj:
    def __init__(self, cls, mod):
        self.cls, self.mod = cls, mod


class FloatEval:
    def __init__(self, repo):
        self.repo = repo
        self.ops = 0

    def call(self, qual, *args):
        mod, fnode, cls = self.repo.function(qual)
        if cls is not None:
            args = (Obj(cls, mod),) + tuple(args)
        return self._call(mod, fnode, list(args))

    def _call(self, mod, fnode, args):
        names = [a.arg for a in fnode.args.args]
        if len(args) != len(names):
            raise Unsupported("arity of %s" % fnode.name)
        env = dict(zip(names, args))
        try:
            for st in fnode.body:
                self.stmt(mod, env, st)
        except _Return as r:
            return r.v
        return None

    def stmt(self, mod, env, st):
        if isinstance(st, ast.Expr):
            if isinstance(st.value, ast.Constant):
                return
            self.expr(mod, env, st.value)
            return
        if isinstance(st, ast.AugAssign) and isinstance(st.target, ast.Name):
            v = self.expr(mod, env, ast.BinOp(left=ast.Name(id=st.target.id, ctx=ast.Load()), op=st.op, right=st.value))
            env[st.target.id] = v
            return
        if isinstance(st, ast.Assign):
            v = self.expr(mod, env, st.value)
            for t in st.targets:
                self.assign(env, t, v)
            return
        if isinstance(st, ast.AnnAssign) and st.value is not None:
            self.assign(env, st.target, self.expr(mod, env, st.value))
            return
        if isinstance(st, ast.Return):
            raise _Return(self.expr(mod, env, st.value) if st.value is not None else None)
        if isinstance(st, ast.If):
            t = self.expr(mod, env, st.test)
            if isinstance(t, bool):
                for s in (st.body if t else st.orelse):
                    self.stmt(mod, env, s)
                return
            if isinstance(t, tuple) and t[0] == "cmp":
                # comparison of an interval-valued local with a constant: both branches on the refined intervals,
                # results joined (interval hull) - only for assignments to simple names
                _, name, op, c = t
                from mpmath import iv as _iv, mp as _mp
                cur = env[name]
                lo, hi = float(_mp.mpf(cur.v._mpi_[0])), float(_mp.mpf(cur.v._mpi_[1]))
                if op in ("<", "<="):
                    tr, fr = (lo, min(hi, c)), (max(lo, c), hi)
                else:
                    tr, fr = (max(lo, c), hi), (lo, min(hi, c))
                outs = []
                for rng, body in ((tr, st.body), (fr, st.orelse)):
                    if rng[0] > rng[1]:
                        continue
                    e2 = dict(env)
                    e2[name] = J(_iv.mpf([rng[0], rng[1]]), 0, 0, cur.err)
                    for s2 in body:
                        self.stmt(mod, e2, s2)
                    outs.append(e2)
                if not outs:
                    return
                for k in set().union(*[set(o) for o in outs]):
                    vals = [o[k] for o in outs if k in o]
                    if all(isinstance(v, J) for v in vals) and len(vals) == len(outs):
                        a = min(float(_mp.mpf(v.v._mpi_[0])) for v in vals)
                        b = max(float(_mp.mpf(v.v._mpi_[1])) for v in vals)
                        env[k] = J(_iv.mpf([a, b]), 0, 0, max(v.err for v in vals))
                    elif len(vals) == len(outs) and all(v is vals[0] or v == vals[0] for v in vals):
                        env[k] = vals[0]
                return
        raise Unsupported("UNSUPPORTED %s:%d %s" % (mod.path, st.lineno, type(st).__name__))

    def assign(self, env, t, v):
        if isinstance(t, ast.Name):
            env[t.id] = v
        elif isinstance(t, (ast.Tuple, ast.List)):
            if not isinstance(v, (tuple, list)) or len(v) != len(t.elts):
                raise Unsupported("unpacking")
            for x, y in zip(t.elts, v):
                self.assign(env, x, y)
        else:
            raise Unsupported("assignment target %s" % type(t).__name__)

    def glob(self, mod, name):
        if name in mod.functions:
            return ("func", mod, mod.functions[name])
        if name in mod.assigns or name in mod.imports:
            if name in mod.imports:
                mname, attr = mod.imports[name]
                if attr is None:
                    if self.repo.has_module(mname):
                        return ("module", self.repo.module(mname))
                    return ("pymodule", __import__(mname))
                if self.repo.has_module(mname + "." + attr):
                    return ("module", self.repo.module(mname + "." + attr))
                if self.repo.has_module(mname):
                    return self.glob(self.repo.module(mname), attr)
                if attr == "cast":
                    return ("cast",)
                return ("py", getattr(__import__(mname, fromlist=[attr]), attr))
            v = getattr(mod.live, name)
            if isinstance(v, (int, float, tuple)):
                return ("const", v)
            cls = type(v).__name__
            for mn in self.repo.all_modules("a5"):
                m2 = self.repo.module(mn)
                if cls in m2.classes:
                    return ("obj", Obj(cls, m2))
            raise Unsupported("module value %s" % name)
        if name in mod.classes:
            return ("class", mod, name)
        raise Unsupported("name %s" % name)

    def lift(self, v):
        if isinstance(v, J):
            return v
        if isinstance(v, (int, float)) and not isinstance(v, bool):
            return J.const(v)
        raise Unsupported("value %r" % (v,))

    def expr(self, mod, env, e):
        self.ops += 1
        if isinstance(e, ast.Constant):
            return e.value
        if isinstance(e, ast.Name):
            if e.id in env:
                return env[e.id]
            g = self.glob(mod, e.id)
            if g[0] == "const":
                return g[1]
            if g[0] == "obj":
                return g[1]
            return g
        if isinstance(e, ast.Tuple):
            return tuple(self.expr(mod, env, x) for x in e.elts)
        if isinstance(e, ast.UnaryOp) and isinstance(e.op, ast.USub):
            v = self.expr(mod, env, e.operand)
            return -v
        if isinstance(e, ast.BinOp):
            a, b = self.expr(mod, env, e.left), self.expr(mod, env, e.right)
            if not isinstance(a, J) and not isinstance(b, J):
                if isinstance(e.op, ast.Add):
                    return a + b
                if isinstance(e.op, ast.Sub):
                    return a - b
                if isinstance(e.op, ast.Mult):
                    return a * b
                if isinstance(e.op, ast.Div):
                    return a / b
                raise Unsupported("operator")
            a, b = self.lift(a), self.lift(b)
            if isinstance(e.op, ast.Add):
                return a + b
            if isinstance(e.op, ast.Sub):
                return a - b
            if isinstance(e.op, ast.Mult):
                return a * b
            if isinstance(e.op, ast.Div):
                return a / b
            raise Unsupported("UNSUPPORTED operator %s at %s:%d" % (type(e.op).__name__, mod.path, e.lineno))
        if isinstance(e, ast.Compare) and len(e.ops) == 1 and isinstance(e.left, ast.Name) and isinstance(env.get(e.left.id), J):
            c = self.expr(mod, env, e.comparators[0])
            if isinstance(c, (int, float)):
                opn = {ast.Lt: "<", ast.LtE: "<=", ast.Gt: ">", ast.GtE: ">="}.get(type(e.ops[0]))
                if opn:
                    return ("cmp", e.left.id, opn, float(c))
        if isinstance(e, ast.Subscript):
            b = self.expr(mod, env, e.value)
            i = self.expr(mod, env, e.slice)
            if isinstance(b, (tuple, list)) and isinstance(i, int):
                return b[i]
            raise Unsupported("subscript")
        if isinstance(e, ast.Attribute):
            b = self.expr(mod, env, e.value)
            if isinstance(b, tuple) and b[0] == "pymodule":
                v = getattr(b[1], e.attr)
                return v if isinstance(v, (int, float)) else ("py", v)
            if isinstance(b, tuple) and b[0] == "module":
                g = self.glob(b[1], e.attr)
                return g[1] if g[0] in ("const", "obj") else g
            if isinstance(b, Obj):
                meths = b.mod.class_methods(b.cls)
                if e.attr in meths:
                    return ("method", b, meths[e.attr])
            raise Unsupported("attribute %s" % e.attr)
        if isinstance(e, ast.Call):
            f = self.expr(mod, env, e.func)
            if isinstance(f, tuple) and f[0] == "cast" and len(e.args) == 2:
                return self.expr(mod, env, e.args[1])       # typing.cast(T, x) is x; T is not evaluated
            args = [self.expr(mod, env, a) for a in e.args]
            if e.keywords:
                raise Unsupported("keyword arguments")
            if isinstance(f, tuple):
                if f[0] == "cast":
                    return args[1]
                if f[0] == "func":
                    return self._call(f[1], f[2], args)
                if f[0] == "method":
                    return self._call(f[1].mod, f[2], [f[1]] + args)
                if f[0] == "py":
                    fn = f[1]
                    if fn is math.sin:
                        return jsin(self.lift(args[0])) if isinstance(args[0], J) else math.sin(args[0])
                    if fn is math.cos:
                        return jcos(self.lift(args[0])) if isinstance(args[0], J) else math.cos(args[0])
                    if not any(isinstance(a, J) for a in args):
                        return fn(*args)
                    raise Unsupported("UNSUPPORTED call %s at %s:%d" % (getattr(fn, "__name__", fn), mod.path, e.lineno))
            raise Unsupported("call at %s:%d" % (mod.path, e.lineno))
        raise Unsupported("UNSUPPORTED %s at %s:%d" % (type(e).__name__, mod.path, getattr(e, "lineno", 0)))

"""Evaluation of straight-line binary64 repository code (re-read from the AST on every run) over jets.

Accepted: assignments, tuple unpacking, return, + - * / unary -, math.sin/cos/pi, indexing of constant tuples,
typing.cast, calls to repository functions and methods of the same kind, module constants.  Anything else
(loops, other library calls, branches on anything but `x < c` / `abs(x) < c` for a float local x) raises Unsupported:
the check is then undecided.

Branches on an interval-valued local: every feasible side is executed on the refined interval (the threshold is widened
by the running rounding-error bound of x, because the binary64 comparison may differ from the real one by that much);
values returned under a side are joined (interval hull, derivatives included) with the value the rest of the function
returns; environments of the sides that fall through are joined the same way.  `piecewise` is set whenever more than one
side was feasible: derivative enclosures are then hulls over the pieces and a Taylor form across the pieces is NOT valid -
callers must fall back to the plain range enclosure for that box."""
import ast
import math

from ..pyvc.src import Repo, ShapeMismatch
from .jets import J, jsin, jcos, jsqrt


class Unsupported(Exception):
    pass


class _Return(Exception):
    def __init__(self, v):
        self.v = v


class Obj:
    def __init__(self, cls, mod):
        self.cls, self.mod = cls, mod


def _b(x):
    from mpmath import mp as _mp
    return _mp.mpf(x._mpi_[0]), _mp.mpf(x._mpi_[1])


def hull_j(vals):
    from mpmath import iv as _iv
    out = []
    for comp in ("v", "d1", "d2"):
        bs = [_b(getattr(v, comp)) for v in vals]
        out.append(_iv.mpf([min(b[0] for b in bs), max(b[1] for b in bs)]))
    return J(out[0], out[1], out[2], max(v.err for v in vals))


def hull_val(vals):
    """Join of the values a name (or a function result) has on the different sides of a branch."""
    if all(isinstance(v, J) for v in vals):
        return hull_j(vals)
    if all(isinstance(v, (int, float, J)) and not isinstance(v, bool) for v in vals):
        return hull_j([v if isinstance(v, J) else J.const(v) for v in vals])
    if all(isinstance(v, tuple) for v in vals) and len({len(v) for v in vals}) == 1 and not any(v and isinstance(v[0], str) for v in vals):
        return tuple(hull_val([v[i] for v in vals]) for i in range(len(vals[0])))
    if not any(isinstance(v, J) for v in vals) and all(v is vals[0] or (type(v) is type(vals[0]) and v == vals[0]) for v in vals):
        return vals[0]
    raise Unsupported("values of different kinds meet after a branch")


class FloatEval:
    def __init__(self, repo):
        self.repo = repo
        self.ops = 0
        self.piecewise = False
        self._pending = []

    def call(self, qual, *args):
        mod, fnode, cls = self.repo.function(qual)
        if cls is not None:
            args = (Obj(cls, mod),) + tuple(args)
        return self._call(mod, fnode, list(args))

    def _call(self, mod, fnode, args):
        names = [a.arg for a in fnode.args.args]
        if len(args) != len(names):
            raise Unsupported("arity of %s" % fnode.name)
        env = dict(zip(names, args))
        return self.run_block(mod, env, fnode.body)

    def run_block(self, mod, env, stmts):
        """Execute statements as a function body; values returned under branches are joined with the final one."""
        self._pending.append([])
        returned, final = False, None
        try:
            try:
                for st in stmts:
                    self.stmt(mod, env, st)
            except _Return as r:
                returned, final = True, r.v
        finally:
            pend = self._pending.pop()
        if not pend:
            return final
        if not returned:
            raise Unsupported("a path falls off the end of a function that returns a value on another path")
        return hull_val(pend + [final])

    def stmt(self, mod, env, st):
        if isinstance(st, ast.Expr):
            if isinstance(st.value, ast.Constant):
                return
            self.expr(mod, env, st.value)
            return
        if isinstance(st, ast.AugAssign) and isinstance(st.target, ast.Name):
            v = self.expr(mod, env, ast.BinOp(left=ast.Name(id=st.target.id, ctx=ast.Load()), op=st.op, right=st.value))
            env[st.target.id] = v
            return
        if isinstance(st, ast.Assign):
            v = self.expr(mod, env, st.value)
            for t in st.targets:
                self.assign(env, t, v)
            return
        if isinstance(st, ast.AnnAssign) and st.value is not None:
            self.assign(env, st.target, self.expr(mod, env, st.value))
            return
        if isinstance(st, ast.Return):
            raise _Return(self.expr(mod, env, st.value) if st.value is not None else None)
        if isinstance(st, ast.If):
            t = self.expr(mod, env, st.test)
            if isinstance(t, bool):
                for s in (st.body if t else st.orelse):
                    self.stmt(mod, env, s)
                return
            if isinstance(t, tuple) and t[0] == "cmp":
                _, name, t_ranges, f_ranges = t
                from mpmath import iv as _iv
                cur = env[name]
                blo, bhi = _b(cur.v)
                lo, hi, e = float(blo), float(bhi), float(cur.err)
                if lo > blo:
                    lo = math.nextafter(lo, -math.inf)
                if hi < bhi:
                    hi = math.nextafter(hi, math.inf)
                outs, rets, feasible = [], [], 0
                for ranges, body in ((t_ranges, st.body), (f_ranges, st.orelse)):
                    for a, b in ranges:
                        a2, b2 = max(lo, a - e), min(hi, b + e)
                        if a2 > b2:
                            continue
                        feasible += 1
                        e2 = dict(env)
                        e2[name] = J(_iv.mpf([a2, b2]), cur.d1, cur.d2, cur.err)
                        try:
                            for s2 in body:
                                self.stmt(mod, e2, s2)
                            outs.append(e2)
                        except _Return as r:
                            rets.append(r.v)
                if feasible > 1:
                    self.piecewise = True
                if rets:
                    if not outs:
                        raise _Return(hull_val(rets))
                    if not self._pending:
                        raise Unsupported("return under a branch outside run_block")
                    self._pending[-1].extend(rets)
                if not outs:
                    return
                for k in set(env) | set().union(*[set(o) for o in outs]):
                    vals = [o[k] for o in outs if k in o]
                    try:
                        if len(vals) != len(outs):
                            raise Unsupported("bound on one side only")
                        env[k] = hull_val(vals)
                    except Unsupported:
                        env.pop(k, None)          # not joinable: any later use is unsupported
                return
        raise Unsupported("UNSUPPORTED %s:%d %s" % (mod.path, st.lineno, type(st).__name__))

    def assign(self, env, t, v):
        if isinstance(t, ast.Name):
            env[t.id] = v
        elif isinstance(t, (ast.Tuple, ast.List)):
            if not isinstance(v, (tuple, list)) or len(v) != len(t.elts):
                raise Unsupported("unpacking")
            for x, y in zip(t.elts, v):
                self.assign(env, x, y)
        else:
            raise Unsupported("assignment target %s" % type(t).__name__)

    def glob(self, mod, name):
        if name in mod.functions:
            return ("func", mod, mod.functions[name])
        if name in mod.assigns or name in mod.imports:
            if name in mod.imports:
                mname, attr = mod.imports[name]
                if attr is None:
                    if self.repo.has_module(mname):
                        return ("module", self.repo.module(mname))
                    return ("pymodule", __import__(mname))
                if self.repo.has_module(mname + "." + attr):
                    return ("module", self.repo.module(mname + "." + attr))
                if self.repo.has_module(mname):
                    return self.glob(self.repo.module(mname), attr)
                if attr == "cast":
                    return ("cast",)
                return ("py", getattr(__import__(mname, fromlist=[attr]), attr))
            v = getattr(mod.live, name)
            if isinstance(v, (int, float, tuple)):
                return ("const", v)
            cls = type(v).__name__
            for mn in self.repo.all_modules("a5"):
                m2 = self.repo.module(mn)
                if cls in m2.classes:
                    return ("obj", Obj(cls, m2))
            raise Unsupported("module value %s" % name)
        if name in mod.classes:
            return ("class", mod, name)
        raise Unsupported("name %s" % name)

    def lift(self, v):
        if isinstance(v, J):
            return v
        if isinstance(v, (int, float)) and not isinstance(v, bool):
            return J.const(v)
        raise Unsupported("value %r" % (v,))

    def expr(self, mod, env, e):
        self.ops += 1
        if isinstance(e, ast.Constant):
            return e.value
        if isinstance(e, ast.Name):
            if e.id in env:
                return env[e.id]
            g = self.glob(mod, e.id)
            if g[0] == "const":
                return g[1]
            if g[0] == "obj":
                return g[1]
            return g
        if isinstance(e, ast.Tuple):
            return tuple(self.expr(mod, env, x) for x in e.elts)
        if isinstance(e, ast.UnaryOp) and isinstance(e.op, ast.USub):
            v = self.expr(mod, env, e.operand)
            return -v
        if isinstance(e, ast.BinOp):
            a, b = self.expr(mod, env, e.left), self.expr(mod, env, e.right)
            if not isinstance(a, J) and not isinstance(b, J):
                if isinstance(e.op, ast.Add):
                    return a + b
                if isinstance(e.op, ast.Sub):
                    return a - b
                if isinstance(e.op, ast.Mult):
                    return a * b
                if isinstance(e.op, ast.Div):
                    return a / b
                raise Unsupported("operator")
            a, b = self.lift(a), self.lift(b)
            if isinstance(e.op, ast.Add):
                return a + b
            if isinstance(e.op, ast.Sub):
                return a - b
            if isinstance(e.op, ast.Mult):
                return a * b
            if isinstance(e.op, ast.Div):
                return a / b
            raise Unsupported("UNSUPPORTED operator %s at %s:%d" % (type(e.op).__name__, mod.path, e.lineno))
        if isinstance(e, ast.Compare) and len(e.ops) == 1:
            left, is_abs = e.left, False
            if isinstance(left, ast.Call) and isinstance(left.func, ast.Name) and left.func.id == "abs" and len(left.args) == 1 and not left.keywords \
                    and "abs" not in env:
                left, is_abs = left.args[0], True
            if isinstance(left, ast.Name) and isinstance(env.get(left.id), J):
                c = self.expr(mod, env, e.comparators[0])
                opn = {ast.Lt: "<", ast.LtE: "<=", ast.Gt: ">", ast.GtE: ">="}.get(type(e.ops[0]))
                if isinstance(c, (int, float)) and not isinstance(c, bool) and opn:
                    c = float(c)
                    inf = math.inf
                    if is_abs:
                        inside, outside = [(-c, c)], [(-inf, -c), (c, inf)]
                        if c < 0:
                            inside, outside = [], [(-inf, inf)]
                        tr, fr = (inside, outside) if opn in ("<", "<=") else (outside, inside)
                    else:
                        below, above = [(-inf, c)], [(c, inf)]
                        tr, fr = (below, above) if opn in ("<", "<=") else (above, below)
                    return ("cmp", left.id, tr, fr)
        if isinstance(e, ast.Subscript):
            b = self.expr(mod, env, e.value)
            i = self.expr(mod, env, e.slice)
            if isinstance(b, (tuple, list)) and isinstance(i, int):
                return b[i]
            raise Unsupported("subscript")
        if isinstance(e, ast.Attribute):
            b = self.expr(mod, env, e.value)
            if isinstance(b, tuple) and b[0] == "pymodule":
                v = getattr(b[1], e.attr)
                return v if isinstance(v, (int, float)) else ("py", v)
            if isinstance(b, tuple) and b[0] == "module":
                g = self.glob(b[1], e.attr)
                return g[1] if g[0] in ("const", "obj") else g
            if isinstance(b, Obj):
                meths = b.mod.class_methods(b.cls)
                if e.attr in meths:
                    return ("method", b, meths[e.attr])
            raise Unsupported("attribute %s" % e.attr)
        if isinstance(e, ast.Call):
            f = self.expr(mod, env, e.func)
            if isinstance(f, tuple) and f[0] == "cast" and len(e.args) == 2:
                return self.expr(mod, env, e.args[1])       # typing.cast(T, x) is x; T is not evaluated
            args = [self.expr(mod, env, a) for a in e.args]
            if e.keywords:
                raise Unsupported("keyword arguments")
            if isinstance(f, tuple):
                if f[0] == "cast":
                    return args[1]
                if f[0] == "func":
                    return self._call(f[1], f[2], args)
                if f[0] == "method":
                    return self._call(f[1].mod, f[2], [f[1]] + args)
                if f[0] == "py":
                    fn = f[1]
                    if fn is math.sin:
                        return jsin(self.lift(args[0])) if isinstance(args[0], J) else math.sin(args[0])
                    if fn is math.cos:
                        return jcos(self.lift(args[0])) if isinstance(args[0], J) else math.cos(args[0])
                    if fn is math.sqrt:
                        return jsqrt(self.lift(args[0])) if isinstance(args[0], J) else math.sqrt(args[0])
                    if not any(isinstance(a, J) for a in args):
                        return fn(*args)
                    raise Unsupported("UNSUPPORTED call %s at %s:%d" % (getattr(fn, "__name__", fn), mod.path, e.lineno))
            raise Unsupported("call at %s:%d" % (mod.path, e.lineno))
        raise Unsupported("UNSUPPORTED %s at %s:%d" % (type(e).__name__, mod.path, getattr(e, "lineno", 0)))

"""Second-order jets (value, first and second derivative) over outward-rounded intervals (mpmath.iv), and a running
bound on the binary64 rounding error of the value.  Used to decide real-interval contracts of straight-line float code
re-read from the repository AST."""
from mpmath import iv, mp

U = 2.0 ** -53          # unit roundoff of binary64, round to nearest
ULP_LIBM = 2.0 ** -52   # assumption A7: libm sin/cos/... are accurate to 1 ulp


def I(x):
    if isinstance(x, J):
        raise TypeError
    return x if isinstance(x, type(iv.mpf(0))) else iv.mpf(x)


def _up(raw):
    """A binary64 number >= the raw mpf value."""
    f = float(mp.mpf(raw))
    return f + abs(f) * 4e-16 + 5e-324


def mag(x):
    """A binary64 upper bound of sup |x|."""
    if not hasattr(x, "_mpi_"):
        return abs(float(x)) * (1 + 4e-16)
    a, b = x._mpi_
    return max(_up(mp.mpf(a) if mp.mpf(a) >= 0 else -mp.mpf(a)), _up(mp.mpf(b) if mp.mpf(b) >= 0 else -mp.mpf(b)))


class J:
    """f, f', f'' as intervals; err = bound on |binary64 value - exact value| accumulated so far."""
    __slots__ = ("v", "d1", "d2", "err")

    def __init__(self, v, d1=0, d2=0, err=0.0):
        self.v, self.d1, self.d2, self.err = I(v), I(d1), I(d2), err

    @staticmethod
    def const(c):
        """A binary64 constant: exact."""
        return J(c, 0, 0, 0.0)

    @staticmethod
    def var(x):
        return J(x, 1, 0, 0.0)

    def _c(self, o):
        return o if isinstance(o, J) else J.const(o)

    def _round(self, v, prop):
        # one rounding of the result + propagated error
        return float(prop + U * mag(v))

    def __add__(self, o):
        o = self._c(o)
        v = self.v + o.v
        return J(v, self.d1 + o.d1, self.d2 + o.d2, self._round(v, self.err + o.err))

    __radd__ = __add__

    def __sub__(self, o):
        o = self._c(o)
        v = self.v - o.v
        return J(v, self.d1 - o.d1, self.d2 - o.d2, self._round(v, self.err + o.err))

    def __rsub__(self, o):
        return self._c(o).__sub__(self)

    def __neg__(self):
        return J(-self.v, -self.d1, -self.d2, self.err)

    def __mul__(self, o):
        o = self._c(o)
        v = self.v * o.v
        prop = mag(self.v) * o.err + mag(o.v) * self.err + self.err * o.err
        return J(v, self.d1 * o.v + self.v * o.d1, self.d2 * o.v + 2 * self.d1 * o.d1 + self.v * o.d2, self._round(v, prop))

    __rmul__ = __mul__

    def recip(self):
        if self.v.a <= 0 <= self.v.b:
            raise ZeroDivisionError("interval contains 0")
        r = 1 / self.v
        a, b = self.v._mpi_
        lo = float(min(abs(mp.mpf(a)), abs(mp.mpf(b)))) * (1 - 4e-16) - self.err
        if lo <= 0:
            raise ZeroDivisionError("divisor not separated from 0")
        prop = self.err / (lo * lo)
        return J(r, -self.d1 * r * r, (2 * self.d1 * self.d1 - self.v * self.d2) * r * r * r, self._round(r, prop))

    def __truediv__(self, o):
        o = self._c(o)
        q = self * o.recip()
        # a single division rounds once, not twice: the bound above is an over-estimate, which is sound
        return q

    def __rtruediv__(self, o):
        return self._c(o).__truediv__(self)


def jsin(x):
    s, c = iv.sin(x.v), iv.cos(x.v)
    return J(s, c * x.d1, -s * x.d1 * x.d1 + c * x.d2, float(x.err + ULP_LIBM * mag(s) + U * mag(s)))


def jcos(x):
    s, c = iv.sin(x.v), iv.cos(x.v)
    return J(c, -s * x.d1, -c * x.d1 * x.d1 - s * x.d2, float(x.err + ULP_LIBM * mag(c) + U * mag(c)))


def jsqrt(x):
    """sqrt is correctly rounded; an argument error e moves the result by at most e / (2 sqrt(lowest possible argument))."""
    r = iv.sqrt(x.v)
    low = x.v.a - x.err
    if not (low > 0):
        raise ZeroDivisionError("sqrt argument reaches 0 (error bound unbounded)")
    err = float(x.err / (2 * iv.sqrt(low)).a + U * mag(r))
    return J(r, x.d1 / (2 * r), x.d2 / (2 * r) - x.d1 * x.d1 / (4 * r * r * r), err)


def jasin(x):
    """asin via atan2 (mpmath.iv has no asin); argument strictly inside (-1, 1)."""
    w = 1 - x.v * x.v
    if w.a <= 0:
        raise ZeroDivisionError("asin argument reaches +-1")
    r = iv.sqrt(w)
    y = iv.atan2(x.v, r)
    return J(y, x.d1 / r, x.d2 / r + x.v * x.d1 * x.d1 / (w * r), 0.0)


def jatanh(x):
    w = 1 - x.v * x.v
    y = iv.log((1 + x.v) / (1 - x.v)) / 2
    return J(y, x.d1 / w, x.d2 / w + 2 * x.v * x.d1 * x.d1 / (w * w), 0.0)

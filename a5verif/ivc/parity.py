"""Exact parity of straight-line float code by symbolic mirroring.

Every value is kept as (sign, term) with a canonical term (operands of + and * sorted).  The identities used are
exact in IEEE binary64: a*b = b*a, a+b = b+a, (-a)*b = -(a*b), (-a)+(-b) = -(a+b), a-b = -(b-a), and - assumption A7 -
sin(-x) = -sin(x), cos(-x) = cos(x) for the libm in use; multiplication by a power of two is exact.  The function is evaluated twice, once on x and once on the
mirrored input -x; it is odd iff the mirrored result is the negated result with the identical term, even iff equal."""
import ast

ODD, EVEN, NONE = "odd", "even", "none"


def neg(v):
    return (-v[0], v[1])


def _pow2(t):
    if t[0] == "const":
        try:
            v = float(t[1])
        except ValueError:
            return None
        if v > 0:
            import math
            m, e = math.frexp(v)
            if m == 0.5:
                return v
    return None


def mul(a, b):
    """Products; a power-of-two factor is an exact scaling (no overflow/underflow in this range) and is pulled out,
    so (2*a)*b and (2*b)*a have the same canonical form."""
    sign = a[0] * b[0]
    scale = 1.0
    ts = []
    for t in (a[1], b[1]):
        while t[0] == "scale":
            scale *= t[1]
            t = t[2]
        p = _pow2(t)
        if p is not None:
            scale *= p
        else:
            ts.append(t)
    if not ts:
        return (sign, ("const", repr(scale)))
    core = ts[0] if len(ts) == 1 else ("mul",) + tuple(sorted(ts, key=repr))
    return (sign, core if scale == 1.0 else ("scale", scale, core))


def div(a, b):
    return (a[0] * b[0], ("div", a[1], b[1]))


def add(a, b):
    if a[0] == b[0]:
        return (a[0], ("add",) + tuple(sorted((a[1], b[1]), key=repr)))
    # x - y  (x positive-signed operand)
    x, y = (a, b) if a[0] > 0 else (b, a)
    if repr(x[1]) <= repr(y[1]):
        return (1, ("sub", x[1], y[1]))
    return (-1, ("sub", y[1], x[1]))        # x - y = -(y - x), exact


class Sym:
    def __init__(self, repo):
        self.repo = repo

    def body(self, mod, fnode, env, cls):
        for st in fnode.body:
            if isinstance(st, ast.Expr):
                continue
            if isinstance(st, ast.Assign) and len(st.targets) == 1 and isinstance(st.targets[0], ast.Name):
                env[st.targets[0].id] = self.expr(mod, env, st.value, cls)
                continue
            if isinstance(st, ast.Return):
                return self.expr(mod, env, st.value, cls)
            return None
        return None

    def expr(self, mod, env, e, cls):
        if isinstance(e, ast.Constant):
            v = e.value
            if isinstance(v, (int, float)) and v < 0:
                return (-1, ("const", repr(-v)))
            return (1, ("const", repr(v)))
        if isinstance(e, ast.Name):
            if e.id in env:
                return env[e.id]
            return (1, ("global", e.id))
        if isinstance(e, ast.Subscript):
            b = self.expr(mod, env, e.value, cls)
            if b is None or b[0] < 0:
                return None
            return (1, ("index", b[1], ast.unparse(e.slice)))
        if isinstance(e, ast.UnaryOp) and isinstance(e.op, ast.USub):
            v = self.expr(mod, env, e.operand, cls)
            return None if v is None else neg(v)
        if isinstance(e, ast.BinOp):
            a, b = self.expr(mod, env, e.left, cls), self.expr(mod, env, e.right, cls)
            if a is None or b is None:
                return None
            if isinstance(e.op, ast.Mult):
                return mul(a, b)
            if isinstance(e.op, ast.Div):
                return div(a, b)
            if isinstance(e.op, ast.Add):
                return add(a, b)
            if isinstance(e.op, ast.Sub):
                return add(a, neg(b))
            return None
        if isinstance(e, ast.Call):
            f = e.func
            if isinstance(f, ast.Name) and f.id == "cast" and len(e.args) == 2:
                return self.expr(mod, env, e.args[1], cls)
            args = [self.expr(mod, env, a, cls) for a in e.args]
            if any(a is None for a in args):
                return None
            if isinstance(f, ast.Attribute) and isinstance(f.value, ast.Name) and f.value.id == "math":
                if f.attr == "sin":
                    return (args[0][0], ("sin", args[0][1]))
                if f.attr == "cos":
                    return (1, ("cos", args[0][1]))
                return None
            if isinstance(f, ast.Attribute) and isinstance(f.value, ast.Name) and f.value.id == "self" and cls:
                meths = mod.class_methods(cls)
                if f.attr in meths:
                    sub = meths[f.attr]
                    names = [a.arg for a in sub.args.args]
                    env2 = dict(zip(names, [(1, ("self",))] + args))
                    return self.body(mod, sub, env2, cls)
            return None
        return None


def parity_of_function(repo, qual):
    mod, fnode, cls = repo.function(qual)
    names = [a.arg for a in fnode.args.args]
    xi = 1 if cls is not None else 0
    out = []
    for sign in (1, -1):
        env = {}
        for i, n in enumerate(names):
            env[n] = (sign, ("x",)) if i == xi else (1, ("param", n))
        out.append(Sym(repo).body(mod, fnode, env, cls))
    a, b = out
    if a is None or b is None:
        return NONE
    if a[1] == b[1] and a[0] == -b[0]:
        return ODD
    if a == b:
        return EVEN
    return NONE

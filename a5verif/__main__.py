"""python3-vt -m a5verif check <ID> [--tier quick|thorough]"""
import importlib
import os
import sys


def main():
    if len(sys.argv) >= 3 and sys.argv[1] == "replay":
        import json
        from .framework import native_replay
        rec = json.load(open(sys.argv[2]))
        kind = rec.get("replay_kind")
        print(json.dumps(rec.get("native"), indent=1))
        nat = rec.get("native") or {}
        if rec.get("property") == "C16" and isinstance(nat.get("schedule"), dict):
            # re-run the recorded two-activation schedule on the real code
            from .checks.c16 import run_dynamic
            out = run_dynamic("one_schedule", {"schedule": nat["schedule"], "cold": bool(nat.get("cold_start"))})
            print(json.dumps(out, indent=1))
            return 1 if out.get("confirmed") else 0
        if kind:
            out = native_replay(rec["property"], kind, {"obligation": rec["obligation"], "model": rec.get("model")})
            print(json.dumps(out, indent=1))
            return 1 if out.get("confirmed") else 0
        return 0
    if len(sys.argv) < 3 or sys.argv[1] != "check":
        print("usage: python3-vt -m a5verif check <property id> [--tier quick|thorough] [--seed N]")
        return 3
    pid = sys.argv[2].upper()
    try:
        mod = importlib.import_module("a5verif.checks.%s" % pid.lower())
    except ModuleNotFoundError as e:
        print("no check for %s (%s)" % (pid, e))
        return 3
    return mod.main(sys.argv[3:])


if __name__ == "__main__":
    sys.exit(main())

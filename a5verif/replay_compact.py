"""Native property-level checks for uncompact (C10) and compact (C08/C09) over small structured pools.
Used to replay counter-models and as the bounded stand-in when a body leaves the accepted subset."""
import itertools
import random


def _s():
    from a5.core import serialization as s
    return s


def pool_cells(rng, extra=()):
    s = _s()
    cells = [0]
    res0 = s.cell_to_children(0, 0)
    cells += res0
    for c in res0[:3] + res0[-2:]:
        cells += s.cell_to_children(c, 1)
    r1 = s.cell_to_children(res0[0], 1) + s.cell_to_children(res0[7], 1)
    for c in r1[:3]:
        cells += s.cell_to_children(c, 2)
    r2 = s.cell_to_children(r1[0], 2)
    for c in r2[:2]:
        cells += s.cell_to_children(c, 3)
    for r in (5, 9, 17, 28, 29):
        for _ in range(3):
            o = rng.randrange(12)
            g = rng.randrange(5)
            S = rng.randrange(4 ** (r - 1))
            from a5.core.origin import origins
            cells.append(s.serialize(dict(origin=origins[o], segment=g, S=S, resolution=r)))
    cells += list(extra)
    return cells


def uncompact_failures(cells, t):
    """Property C10 for one call."""
    s = _s()
    from a5.core.compact import uncompact
    from a5.core.cell_info import get_num_children
    arg = list(cells)
    finer = any(s.get_resolution(c) > t for c in cells)
    try:
        res = uncompact(arg, t)
    except ValueError as e:
        out = [] if finer else ["raised ValueError although no cell is finer than %d: %s" % (t, e)]
        if arg != list(cells):
            out.append("argument modified")
        return out
    except Exception as e:
        return ["raised %s: %s" % (type(e).__name__, e)]
    out = []
    if finer:
        out.append("returned %d cells although a cell is finer than the target %d" % (len(res), t))
        return out
    if arg != list(cells):
        out.append("argument modified")
    exp_len = sum(get_num_children(s.get_resolution(c), t) for c in cells)
    if len(res) != exp_len:
        out.append("length %d, expected sum of get_num_children = %d" % (len(res), exp_len))
    pos = 0
    for c in cells:
        r = s.get_resolution(c)
        n = 1 if r == t else len(s.cell_to_children(c, t))
        block = res[pos:pos + n]
        pos += n
        if len(block) != n:
            out.append("block of %#x is short" % c)
            break
        if r == t:
            if block != [c]:
                out.append("cell %#x at target level expanded to %s" % (c, [hex(x) for x in block[:3]]))
            continue
        if len(set(block)) != len(block):
            out.append("block of %#x repeats a cell" % c)
        for x in block:
            if s.get_resolution(x) != t:
                out.append("output cell %#x has resolution %d, expected %d" % (x, s.get_resolution(x), t))
                break
            if s.cell_to_parent(x, r) != c:
                out.append("output cell %#x in the block of %#x maps back to %#x" % (x, c, s.cell_to_parent(x, r)))
                break
    return out


def r_uncompact(model, payload):
    rng = random.Random(0)
    s = _s()
    pool = pool_cells(rng)
    tried = 0
    # single cells, pairs (order matters, repeated calls share module state), triples
    for t in range(0, 5):
        small = [c for c in pool if -1 <= s.get_resolution(c) <= t + 1 and t - s.get_resolution(c) <= 3]
        cands = [[c] for c in small] + [[a, b] for a in small[:14] for b in small[:14]] + \
                [[a, b, a] for a in small[:6] for b in small[6:12]]
        for cells in cands:
            tried += 1
            f = uncompact_failures(cells, t)
            if f:
                return {"confirmed": True, "input": {"cells": [hex(c) for c in cells], "target_resolution": t},
                        "observed": f[:4], "calls_tried": tried}
    for c in pool:
        r = s.get_resolution(c)
        if r >= 5:
            for t in (r, r + 1, min(r + 2, 29), r - 1):
                if t <= 29:
                    tried += 1
                    f = uncompact_failures([c, c], t)
                    if f:
                        return {"confirmed": True, "input": {"cells": [hex(c), hex(c)], "target_resolution": t}, "observed": f[:4]}
    return {"confirmed": False, "note": "no failing input among %d uncompact calls on the bounded pool" % tried}


# ------------------------------------------------------------------------------------------------ compact
def covered(cells, R):
    s = _s()
    out = set()
    for c in cells:
        out.update(s.cell_to_children(c, R))
    return out


def related(a, b):
    s = _s()
    ra, rb = s.get_resolution(a), s.get_resolution(b)
    if ra <= rb:
        return s.cell_to_parent(b, ra) == a
    return s.cell_to_parent(a, rb) == b


def compact_failures(cells, want_c09=True):
    s = _s()
    from a5.core.compact import compact
    arg = list(cells)
    try:
        res = compact(arg)
    except Exception as e:
        return ["raised %s: %s" % (type(e).__name__, e)]
    out = []
    if arg != list(cells):
        out.append("argument modified")
    R = max([s.get_resolution(c) for c in list(cells) + list(res)] + [0])
    if R <= 6 and covered(cells, R) != covered(res, R):
        lost = covered(cells, R) - covered(res, R)
        added = covered(res, R) - covered(cells, R)
        out.append("coverage changed at level %d: %d lost, %d added" % (R, len(lost), len(added)))
    antichain = all(not related(a, b) for a, b in itertools.combinations(set(cells), 2))
    if want_c09 and antichain:
        if len(set(res)) != len(res):
            out.append("output repeats a cell")
        rs = set(res)
        for c in res:
            r = s.get_resolution(c)
            if r >= 0:
                p = s.cell_to_parent(c, r - 1)
                sibs = s.cell_to_children(p, r)
                if all(x in rs for x in sibs):
                    out.append("complete sibling group of %#x (%d cells) left un-merged" % (p, len(sibs)))
                    break
        try:
            again = compact(list(res))
            if set(again) != rs:
                out.append("compacting the result again changes it")
            sh = list(cells)
            random.Random(1).shuffle(sh)
            if set(compact(sh + sh[:2])) != rs:
                out.append("result depends on input order/duplication")
            num = sorted(set(cells))
            if set(compact(list(num))) != rs or set(compact(list(reversed(num)))) != rs:
                out.append("result depends on input order (numerically sorted input)")
        except Exception as e:
            out.append("second compact raised %s" % e)
    return out


def compact_inputs(rng):
    s = _s()
    res0 = s.cell_to_children(0, 0)
    f0 = s.cell_to_children(res0[0], 1)
    f8 = s.cell_to_children(res0[8], 1)
    yield [0]
    yield [0, res0[3]]
    yield [0, 0]
    for face in (res0[1], res0[5], res0[8], res0[11]):
        segs = s.cell_to_children(face, 1)
        yield segs
        yield list(reversed(segs)) + [res0[0]]
        yield s.cell_to_children(face, 2)
        yield segs[:4] + s.cell_to_children(segs[4], 2)
    yield res0
    yield f0 + res0[1:]
    # low faces given directly, high faces through their segments (and the converse): after the first pass the
    # merged parents must still line up with the directly given faces
    yield res0[:11] + s.cell_to_children(res0[11], 1)
    # a face's five segments together with the faces whose 6-bit field lies among those segments' fields
    for k in (1, 2):
        yield s.cell_to_children(res0[k], 1) + [res0[j] for j in range(5 * k, min(12, 5 * k + 5)) if j != k]
    yield res0[:6] + [x for f in res0[6:] for x in s.cell_to_children(f, 1)]
    yield [x for f in res0[:6] for x in s.cell_to_children(f, 1)] + res0[6:]
    yield res0[:3] + s.cell_to_children(res0[3], 1) + res0[4:9] + s.cell_to_children(res0[9], 1) + res0[10:]
    yield f0
    yield f0[:4]
    for seg in f0[:2] + f8[:1]:
        c2 = s.cell_to_children(seg, 2)
        yield c2
        yield c2 + [res0[8]]
        yield c2 + [res0[3], res0[11]]
        yield c2[:3]
        yield c2[1:] + s.cell_to_children(c2[0], 3)
        yield c2[:1] + c2[2:] + s.cell_to_children(c2[1], 3)[:1]
        yield [x for x in f0 if x != seg] + c2
        c3 = s.cell_to_children(c2[0], 3)
        yield c3 + c2[1:]
        yield c3[1:] + c2[1:] + [f0[1]]
        yield c2 + c2
        yield c2 + [seg]
        yield c3 + [c2[0]]
    # straddling runs
    a = s.cell_to_children(f0[0], 2)
    b = s.cell_to_children(f0[1], 2)
    yield a[1:] + b[:1]
    yield a[2:] + b[:2]
    for _ in range(120):
        base = rng.choice([res0[0], res0[5], f0[0], f8[2]])
        lvl = s.get_resolution(base)
        pool = s.cell_to_children(base, min(lvl + 2, 3)) + s.cell_to_children(base, lvl + 1) + [base] + res0[:3]
        k = rng.randrange(1, min(len(pool), 12))
        yield [rng.choice(pool) for _ in range(k)]


def inputs_from_model(model):
    """A compact input built from a lemma counter-model: the sibling group of the first child c plus the cell y."""
    s = _s()
    from a5.core.origin import origins
    try:
        c = dict(origin=origins[model["c_o"]], segment=model["c_g"], S=model["c_S"], resolution=model["c_r"])
        y = dict(origin=origins[model["y_o"]], segment=model["y_g"], S=model["y_S"], resolution=model["y_r"])
        cid, yid = s.serialize(c), s.serialize(y)
    except Exception:
        return []
    r = model["c_r"]
    if r < 0:
        return []
    sibs = s.cell_to_children(s.cell_to_parent(cid, r - 1), r)
    out = [sibs + [yid], [yid] + list(reversed(sibs))]
    if r >= 1:
        # the whole face around the group, so that the merged parent has to merge again
        face = s.cell_to_parent(cid, 0)
        rest = [x for x in s.cell_to_children(face, 1) if x != s.cell_to_parent(cid, 1)] if r >= 2 else []
        out.append(sibs + rest + [yid])
    return out


def r_compact(model, payload):
    rng = random.Random(0)
    tried = 0
    for cells in inputs_from_model(model or {}):
        tried += 1
        f = compact_failures(cells, want_c09=payload.get("c09", True))
        if f:
            return {"confirmed": True, "input": {"cells": [hex(c) for c in cells]}, "observed": f[:4], "from_model": True}
    want_c09 = payload.get("property", "C08") != "C08only"
    for cells in compact_inputs(rng):
        tried += 1
        f = compact_failures(cells, want_c09=payload.get("c09", True))
        if f:
            return {"confirmed": True, "input": {"cells": [hex(c) for c in cells]}, "observed": f[:4], "calls_tried": tried}
    return {"confirmed": False, "note": "no failing input among %d compact calls on the bounded pool" % tried}

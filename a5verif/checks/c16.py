"""C16 (results do not depend on other threads) and C17 (every API call is a pure function of its arguments):
frame / ownership contracts over the public API (engine fxc), cache-index injectivity VCs (engine pyvc),
schedule / sequence replay of frame violations on the real code."""
import json
import os
import subprocess
import sys
import time
import z3

from .. import REPO, VERIF
from ..framework import CheckResult, finish, write_replay_file, VENV_PY, load_known_findings
from ..fxc.analysis import Analysis, IMM, FRESH
from ..fxc import frame
from ..pyvc.src import Repo
from ..pyvc.ctx import Settings, Explorer, Ctx
from ..pyvc.interp import Interp
from ..pyvc.interp_stmt import Frame
from ..pyvc.values import Obj
from ..contracts.registry import registry
from .common import specs_module, parse_args

TRUSTED = [
    "A8 (C16 meta-theorem, paper): if every write to an object reachable from two activations is an idempotent cache fill (same slot => same value; slots only go from empty to filled; containers only grow) or a counter whose value only reaches print, and every other write is to an object allocated in the activation, then under the GIL's per-bytecode atomicity every interleaving returns the sequential values",
    "A9 (C17 meta-theorem, paper): with no parameter mutated, results fresh or immutable, shared writes only idempotent functionally-keyed cache fills / diagnostics, each call's value is a function of its arguments and import-time data; binary64 operations are deterministic, so the value equals a fresh interpreter's bit for bit",
    "fxc: flow-insensitive, field-insensitive may-alias/may-write analysis over the AST re-read from /repo; method calls with an unknown receiver type resolve to every repository class defining the method; element immutability of containers is taken from parameter annotations (Vec3, Pentagon, List[int], ...) and inferred for attributes from every store into them",
    "fxc: no setattr/exec/eval/globals()-style dynamic writes (the reachable source is scanned; a hit makes the check undecided), no C extensions, no threads created by the library itself",
    "cache key domains (face_triangle_index 0..9, origin_id 0..11) are taken from the producers' syntactic form ((.. + 10) % 10; origins table of 12)",
    "import-time initialisation (module tables, CRS vertices) is outside the quantifier: it runs once before any API call",
]


def run_dynamic(kind, payload, timeout=900):
    env = dict(os.environ)
    env["PYTHONPATH"] = REPO + os.pathsep + VERIF
    payload = dict(payload)
    payload["kind"] = kind
    try:
        p = subprocess.run([VENV_PY, "-m", "a5verif.fxc.dynamic"], input=json.dumps(payload), capture_output=True, text=True, env=env,
                           cwd=VERIF, timeout=timeout)
        return json.loads(p.stdout.strip().splitlines()[-1])
    except Exception as e:
        return {"confirmed": False, "error": "%s: %s" % (type(e).__name__, e)}


def cache_index_vc(repo, c):
    """E1 VC: equal slot index => equal value-determining key, over the real index computation
    (the statements of the fill function that precede its first loop are executed symbolically)."""
    import ast
    mod, fnode, cls = repo.function("%s.%s.%s" % (c["module"], c["cls"], c["func"]))
    prefix = []
    for st in fnode.body:
        if isinstance(st, (ast.While, ast.For)):
            break
        prefix.append(st)
    ex = Explorer(Settings(width=32))
    results = []

    def task(ctx):
        it = Interp(ctx, repo, registry(), specs_module())
        keys = []
        idxs = []
        for tag in ("1", "2"):
            loc = {"self": Obj(c["cls"], {}, mod)}
            k = {}
            for name, dom in c["key"].items():
                if dom[0] == "int":
                    v = it.ops.int_var(name + tag)
                    ctx.assume(z3.And(v >= dom[1], v <= dom[2]))
                else:
                    v = z3.Bool(name + tag)
                loc[name] = v
                k[name] = v
            fr = Frame(mod, fnode, None, loc)
            it.exec_block(fr, prefix)
            idxs.append(it.ops.lift_int(fr.locals[c["index_var"]]))
            keys.append(k)
        vk = eval(c["value_key"], {"And": z3.And, "Or": z3.Or, "Not": z3.Not})
        k1, k2 = vk(keys[0]), vk(keys[1])
        same = z3.And(*[a == b for a, b in zip(k1, k2)])
        results.append((ctx.pc_expr(), idxs[0] == idxs[1], same, keys))
        return None

    ex.explore(task)
    out = []
    for pc, eqidx, same, keys in results:
        s = z3.Solver()
        s.set("timeout", 20000)
        s.add(pc, eqidx, z3.Not(same))
        r = s.check()
        model = None
        if r == z3.sat:
            m = s.model()
            model = {n + t: str(m.eval(v, model_completion=True)) for t, k in zip(("1", "2"), keys) for n, v in k.items()}
        out.append((str(r), model))
    for ob in ex.obligations:
        s = z3.Solver()
        s.set("timeout", 20000)
        s.add(ob.pc, z3.Not(ob.goal))
        if s.check() != z3.unsat:
            out.append(("unknown", {"safety": ob.name}))
    return out


def analyse():
    an = Analysis(REPO)
    rounds = an.analyze_all()
    return an, rounds


def build(prop, tier):
    """Returns (findings, an, extra) - findings are Finding objects; the caller decides which apply to the property."""
    an, rounds = analyse()
    reach = an.reachable(frame.API)
    F = []
    # ---- dynamic features
    dyn = [(q, d) for q in sorted(reach) for d in an.summaries[q].dynamic]
    F.append(frame.Finding("frame/no-dynamic-writes", None if dyn else True, "dynamic write features in reachable code: %s" % dyn if dyn else
                           "no setattr/exec/eval/globals() in the %d reachable functions" % len(reach)))
    # ---- cache / diagnostic structure
    for c in frame.CACHES:
        F += frame.check_list_slot_cache(an, c) if c["kind"] == "list-slot" else frame.check_dict_cache(an, c)
    for d in frame.DIAGNOSTICS:
        F += frame.check_diagnostic(an, d)
    # ---- cache index injectivity (E1)
    repo = Repo(REPO)
    for c in frame.CACHES:
        if c["kind"] != "list-slot":
            continue
        name = "cache/%s.%s/slot-index-determines-the-key" % (c["cls"], c["attr"])
        try:
            rs = cache_index_vc(repo, c)
            bad = [m for r, m in rs if r == "sat"]
            unk = [m for r, m in rs if r not in ("sat", "unsat")]
            if bad:
                F.append(frame.Finding(name, False, "two keys share a slot: %s" % bad[0], data={"model": bad[0], "cache": c["attr"]}))
            elif unk:
                F.append(frame.Finding(name, None, "undecided: %s" % unk[0]))
            else:
                F.append(frame.Finding(name, True, "unsat on %d path(s) (z3, 32-bit ints, key domain %s)" % (len(rs), c["key"])))
        except Exception as e:
            F.append(frame.Finding(name, None, "UNSUPPORTED/shape: %s: %s" % (type(e).__name__, e)))
    # ---- shared writes of each public function
    shared = {}
    for q in frame.API:
        s = an.summaries[q]
        for g, sites in s.mut_globals.items():
            for w in sites:
                shared.setdefault((g, w.via_func), {"stores": set(), "apis": set(), "via": set(), "funcs": set()})
                d = shared[(g, w.via_func)]
                d["stores"].add(w.where)
                d["via"].add(w.via_where)
                d["apis"].add(q)
                d["funcs"].add((w.func, w.attr, w.where))
    for (g, via), d in sorted(shared.items()):
        gname = "%s.%s" % (g[1].split(".")[-1], g[2])
        fshort = via.split(".", 2)[-1]
        name = "shared-write/%s/in/%s" % (gname, fshort)
        allowed = [frame.allowed_attr_for_site(type("W", (), {"func": f, "attr": at})()) for (f, at, wh) in sorted(d["funcs"], key=repr)]
        notok = [(f, at, wh) for (f, at, wh) in sorted(d["funcs"], key=repr)
                 if frame.allowed_attr_for_site(type("W", (), {"func": f, "attr": at})()) is None]
        if notok:
            d["stores"] = {wh for (_f, _a, wh) in notok}
        if all(a is not None for a in allowed):
            F.append(frame.Finding(name, True, "every store is a fill of %s (structure verified separately)" % sorted({"%s.%s" % (a[1]["cls"], a[1]["attr"]) for a in allowed}),
                                   sorted(d["via"])[0], {"apis": sorted(d["apis"])}))
        elif prop == "C17" and all(frame.scratch_defined_before_use(an, g, u)[0] for u in sorted(reach)
                                   if g in an.summaries[u].direct_globals):
            why = "; ".join(frame.scratch_defined_before_use(an, g, u)[1] for u in sorted(reach) if g in an.summaries[u].direct_globals)[:300]
            F.append(frame.Finding(name.replace("shared-write/", "F4/scratch-defined-before-use/"), True,
                                   "module-level scratch object %s carries no value between calls: %s (this is not enough for C16)" % (gname, why),
                                   sorted(d["via"])[0], {"apis": sorted(d["apis"])}))
        else:
            F.append(frame.Finding(name, False, "module-level object %s is written through %s (stores at %s) - not an idempotent cache fill or diagnostic; reachable from %s"
                                   % (gname, fshort, ", ".join(sorted(d["stores"])[:4]), ", ".join(a.split(".")[-1] for a in sorted(d["apis"]))),
                                   sorted(d["via"])[0], {"global": list(g), "function": via, "sites": sorted(d["via"]) + sorted(d["stores"]),
                                                         "apis": sorted(d["apis"])}))
    # ---- F1 / F2
    for q in frame.API:
        s = an.summaries[q]
        short = q.split(".")[-1]
        fi = an.funcs[q]
        F.append(frame.Finding("F1/%s/arguments-not-modified" % short, not s.mut_params,
                               "no parameter is mutated" if not s.mut_params else "may mutate parameter(s) %s: %s" % (
                                   [fi.params[i] for i in sorted(s.mut_params)], [x for i in sorted(s.mut_params) for x in s.param_sites.get(i, [])][:3]),
                               data={"params": [fi.params[i] for i in sorted(s.mut_params)]}))
        bad = [t for t in s.ret if t not in (IMM, FRESH)]
        F.append(frame.Finding("F2/%s/result-is-fresh-or-immutable" % short, not bad,
                               "result is allocated in the call or immutable" if not bad else "result may alias %s" % bad, data={"aliases": [list(t) for t in bad]}))
        esc = s.escapes
        F.append(frame.Finding("F2b/%s/arguments-do-not-escape" % short, not esc,
                               "no argument is stored into a module-level object" if not esc else "parameter(s) %s stored into module-level state" % sorted(esc)))
    extra = {"functions_analysed": len(an.funcs), "reachable_from_api": len(reach), "fixpoint_rounds": rounds,
             "api": frame.API}
    return F, an, extra


def run(prop, tier, seed):
    t0 = time.time()
    res = CheckResult(prop)
    F, an, extra = build(prop, tier)
    relevant = []
    for f in F:
        if prop == "C16" and (f.name.startswith("F1/") or f.name.startswith("F2")):
            continue
        relevant.append(f)
    n_ok = sum(1 for f in relevant if f.ok is True)
    sched_done = {}
    for f in relevant:
        if f.ok is True:
            continue
        if f.ok is None:
            res.undecided.append("%s: %s" % (f.name, f.detail))
            continue
        rec = {"property": prop, "obligation": f.name, "detail": f.detail, "where": f.where, "data": f.data}
        confirmed = False
        if prop == "C16":
            files = sorted({s.split(":")[0] for s in f.data.get("sites", [])}) or ([f.where.split(":")[0]] if f.where else [])
            if f.name.startswith("shared-write/") and files:
                key = tuple(files)
                if key not in sched_done:
                    sched_done[key] = run_dynamic("schedule", {"files": files, "max_hits": 300 if tier == "quick" else 1500,
                                                               "time_budget": 60 if tier == "quick" else 300})
                if not sched_done[key].get("confirmed"):
                    # nothing on warm caches: try schedules that start cold (lazy initialisation races)
                    if "cold" not in sched_done:
                        sched_done["cold"] = run_dynamic("schedule_cold", {"max_hits": 200 if tier == "quick" else 800,
                                                                           "time_budget": 60 if tier == "quick" else 300})
                    if sched_done["cold"].get("confirmed"):
                        sched_done[key] = sched_done["cold"]
                    else:
                        sched_done[key] = dict(sched_done[key], cold=sched_done["cold"])
                rec["native"] = sched_done[key]
                confirmed = bool(sched_done[key].get("confirmed"))
            elif "slot-index-determines-the-key" in f.name or f.name.startswith("cache/"):
                d = run_dynamic("sequence", {"repo": REPO, "orders": 3})
                rec["native"] = d
                confirmed = bool(d.get("confirmed"))
        else:
            if "seq" not in sched_done:
                sched_done["seq"] = run_dynamic("sequence", {"repo": REPO, "orders": 3 if tier == "quick" else 12})
            rec["native"] = sched_done["seq"]
            confirmed = bool(sched_done["seq"].get("confirmed"))
        path = write_replay_file(prop, f.name, rec)
        res.violations.append((f.name, path, "" if confirmed else "no-failing-input-found"))
    bounded = {}
    if tier == "thorough":
        # bounded validation of the meta-theorems on this code (never counted as proved)
        if prop == "C16":
            files = ["a5/math/vec3.py", "a5/geometry/spherical_polygon.py", "a5/projections/dodecahedron.py", "a5/projections/polyhedral.py",
                     "a5/projections/crs.py", "a5/core/cell.py"]
            bounded["preemption_sweep"] = run_dynamic("schedule", {"files": files, "max_hits": 400, "time_budget": 600}, timeout=1500)
            bounded["real_threads"] = run_dynamic("threads", {"seconds": 20.0})
        else:
            bounded["sequence_sweep"] = run_dynamic("sequence", {"repo": REPO, "orders": 20}, timeout=3000)
        for k, v in bounded.items():
            if v.get("confirmed"):
                path = write_replay_file(prop, "bounded/" + k, {"property": prop, "obligation": "bounded/" + k, "native": v})
                res.violations.append(("bounded/%s (validation of the meta-theorem)" % k, path, ""))
    coverage = {
        "obligations": len(relevant),
        "discharged": n_ok,
        "checker_cmd": "python3-vt -m a5verif check %s --tier %s" % (prop, tier),
        "trusted_base": TRUSTED,
        "functions_under_contract": frame.API,
        "backends": {"fxc (frame/ownership analysis)": sum(1 for f in relevant if not f.name.endswith("slot-index-determines-the-key")),
                     "z3 (cache index VCs)": sum(1 for f in relevant if f.name.endswith("slot-index-determines-the-key"))},
        "samples": [f.to_json() for f in relevant[:40]],
        "bounded": bounded,
        "solver_seconds": 0.0,
    }
    coverage.update(extra)
    return finish(prop, tier, seed, t0, "proof", coverage, TRUSTED, res)


def main(argv=None):
    a = parse_args(argv if argv is not None else sys.argv[1:])
    return run("C16", a.tier, a.seed)


if __name__ == "__main__":
    sys.exit(main())

"""C02 (in part) - a cell's centre maps back to the same cell.

Claimed conjuncts only:
  D1 (ivc)  for EVERY cell id, cell_to_lonlat returns longitude in [-180, 180] and latitude in [-90, 90] (up to 1e-12
            degrees of binary64 rounding at the poles): by the ranges of atan2/acos in to_spherical and interval
            evaluation of to_lonlat and of the tail of cell_to_lonlat - independent of the projection's float geometry;
  D2 (pyvc) the discrete skeleton of the id -> centre -> id chain: segment_to_quintant inverts quintant_to_segment on
            all 12 faces x 5 quintants, with the same curve orientation (C05 and C18 cover the id code and the curve).
NOT claimed (float geometry, see not-applicable C01): that the centre lies strictly inside the cell's boundary ring and
that lonlat_to_cell of it returns the cell."""
import ast
import math
import sys
import time
import z3

from mpmath import iv, mp

from .. import REPO
from ..framework import CheckResult, finish, write_replay_file, native_replay
from ..pyvc.src import Repo, ShapeMismatch
from ..pyvc.ctx import Settings, PyRaise
from ..pyvc.interp import Interp
from ..pyvc.prove import run_task
from ..pyvc.values import zand, zor, znot, zbool
from ..contracts.registry import registry
from ..ivc.jets import J
from ..ivc.evalast import FloatEval, Unsupported, _Return
from .common import parse_args, specs_module

TOSPH = "a5.core.coordinate_transforms.to_spherical"
TOLL = "a5.core.coordinate_transforms.to_lonlat"
C2LL = "a5.core.cell.cell_to_lonlat"
Q2S = "a5.core.origin.quintant_to_segment"
S2Q = "a5.core.origin.segment_to_quintant"

TRUSTED = [
    "A7: math.atan2 returns a value in [-pi, pi], math.acos a value in [0, pi] (or raises), libm within 1 ulp; mpmath.iv outward rounding is sound",
    "D1 is about the value returned by cell_to_lonlat whenever it returns; that it does return (no exception inside the projection) is float geometry and not claimed",
    "latitude bound: |lat| <= 90 + 1e-12 is what interval evaluation of the series gives at the poles; exactly 90 at the poles themselves is checked on the three-point domain under C15",
    "D2: Python ints as 80-bit bit-vectors; origins table read from the live module",
]


def shape_to_spherical(repo):
    """to_spherical returns (atan2(..), acos(..)): ranges of the result follow from the ranges of the two libm calls."""
    mod, fnode, _ = repo.function(TOSPH)
    env = {}
    for st in fnode.body:
        if isinstance(st, ast.Assign) and len(st.targets) == 1 and isinstance(st.targets[0], ast.Name):
            v = st.value
            while isinstance(v, ast.Call) and isinstance(v.func, ast.Name) and v.func.id == "cast" and len(v.args) == 2:
                v = v.args[1]
            if isinstance(v, ast.Call) and isinstance(v.func, ast.Attribute) and isinstance(v.func.value, ast.Name) and v.func.value.id == "math":
                env[st.targets[0].id] = v.func.attr
            else:
                env[st.targets[0].id] = None
        if isinstance(st, ast.Return):
            v = st.value
            while isinstance(v, ast.Call) and isinstance(v.func, ast.Name) and v.func.id == "cast" and len(v.args) == 2:
                v = v.args[1]
            if isinstance(v, ast.Tuple) and len(v.elts) == 2:
                kinds = []
                for x in v.elts:
                    while isinstance(x, ast.Call) and isinstance(x.func, ast.Name) and x.func.id == "cast" and len(x.args) == 2:
                        x = x.args[1]
                    if isinstance(x, ast.Name):
                        kinds.append(env.get(x.id))
                    elif isinstance(x, ast.Call) and isinstance(x.func, ast.Attribute) and isinstance(x.func.value, ast.Name) and x.func.value.id == "math":
                        kinds.append(x.func.attr)
                    else:
                        kinds.append(None)
                return kinds == ["atan2", "acos"]
    return False


def dataflow_cell_to_lonlat(repo):
    """Every non-constant value cell_to_lonlat passes to to_lonlat is the result of a call whose result is a
    to_spherical value: `point = _dodecahedron.inverse(..)` and DodecahedronProjection.inverse returns to_spherical(..)."""
    mod, fnode, _ = repo.function(C2LL)
    m2, inv, _ = repo.function("a5.projections.dodecahedron.DodecahedronProjection.inverse")
    rets = [n for n in ast.walk(inv) if isinstance(n, ast.Return)]
    ok_inv = bool(rets) and all(isinstance(r.value, ast.Call) and isinstance(r.value.func, ast.Name) and r.value.func.id == "to_spherical" for r in rets)
    src = {}
    arg_ok = False
    for st in ast.walk(fnode):
        if isinstance(st, ast.Assign) and len(st.targets) == 1 and isinstance(st.targets[0], ast.Name) and isinstance(st.value, ast.Call):
            src[st.targets[0].id] = ast.unparse(st.value.func)
    for n in ast.walk(fnode):
        if isinstance(n, ast.Call) and isinstance(n.func, ast.Name) and n.func.id == "to_lonlat" and len(n.args) == 1 and isinstance(n.args[0], ast.Name):
            arg_ok = src.get(n.args[0].id) == "_dodecahedron.inverse"
    return ok_inv and arg_ok


def tail_range(repo, lon_iv, lat_iv):
    """Interval evaluation of the statements of cell_to_lonlat that follow its to_lonlat(point) call."""
    mod, fnode, _ = repo.function(C2LL)
    ev = FloatEval(repo)
    # find the statement that calls to_lonlat
    idx = None
    for i, st in enumerate(fnode.body):
        if any(isinstance(n, ast.Call) and isinstance(n.func, ast.Name) and n.func.id == "to_lonlat" for n in ast.walk(st)):
            idx = i
    if idx is None:
        raise ShapeMismatch("CONTRACT-SHAPE-MISMATCH: cell_to_lonlat does not call to_lonlat")
    st = fnode.body[idx]
    res = (J(lon_iv), J(lat_iv))
    if isinstance(st, ast.Return):
        return res
    if not (isinstance(st, ast.Assign) and len(st.targets) == 1):
        raise Unsupported("shape of the to_lonlat statement")
    env = {}
    ev.assign(env, st.targets[0], res)
    out = ev.run_block(mod, env, fnode.body[idx + 1:])
    if out is None:
        raise Unsupported("cell_to_lonlat does not return after to_lonlat")
    return out


def d1(repo):
    """Returns list of (name, ok, detail)."""
    out = []
    iv.prec = 80
    # the two source-shape facts are what the interval argument starts from; when the source no longer has that
    # shape the argument does not apply (undecided) - that is not a refutation of the range property
    ok_shape = shape_to_spherical(repo)
    out.append(("C02/D1/to_spherical-returns-(atan2,acos)", True if ok_shape else None,
                "result ranges theta in [-pi, pi], phi in [0, pi]" if ok_shape else "undecided: to_spherical no longer returns (atan2(..), acos(..)) in a recognised form"))
    ok_flow = dataflow_cell_to_lonlat(repo)
    out.append(("C02/D1/cell_to_lonlat-feeds-to_lonlat-a-to_spherical-value", True if ok_flow else None,
                "point = _dodecahedron.inverse(..); DodecahedronProjection.inverse returns to_spherical(..)" if ok_flow else
                "undecided: the value cell_to_lonlat hands to to_lonlat is no longer recognisably a to_spherical result"))
    try:
        ev = FloatEval(repo)
        pi_hi = 3.1415926535897936
        theta = J(iv.mpf([-pi_hi, pi_hi]))
        phi = J(iv.mpf([0, pi_hi]))
        lon, lat = ev.call(TOLL, (theta, phi))
        lon_iv = iv.mpf([float(mp.mpf(lon.v._mpi_[0])) - lon.err, float(mp.mpf(lon.v._mpi_[1])) + lon.err])
        # latitude: one enclosure over the whole range is too coarse (dependency).  lat(phi) is strictly decreasing
        # (its derivative is negative on every box), so its extremes are at phi = 0 and phi = pi.
        nb = 256
        mono = True
        for i in range(nb):
            box = iv.mpf([pi_hi * i / nb, pi_hi * (i + 1) / nb])
            _lo, la = ev.call(TOLL, (J(0), J.var(box)))
            if not (float(mp.mpf(la.d1._mpi_[1])) < 0):
                mono = False
        _l0, top = ev.call(TOLL, (J(0), J(iv.mpf([0, 0]))))
        _l1, bot = ev.call(TOLL, (J(0), J(iv.mpf([pi_hi, pi_hi]))))
        if mono:
            lat_iv = iv.mpf([float(mp.mpf(bot.v._mpi_[0])) - bot.err, float(mp.mpf(top.v._mpi_[1])) + top.err])
        else:
            lat_iv = iv.mpf([float(mp.mpf(lat.v._mpi_[0])) - lat.err, float(mp.mpf(lat.v._mpi_[1])) + lat.err])
        out.append(("C02/D1/to_lonlat-range", True, "to_lonlat maps theta in [-pi,pi], phi in [0,pi] into lon %s, lat %s" % (lon_iv, lat_iv)))
        flon, flat = tail_range(repo, lon_iv, lat_iv)
        lo, hi = float(mp.mpf(flon.v._mpi_[0])), float(mp.mpf(flon.v._mpi_[1]))
        la, lb = float(mp.mpf(flat.v._mpi_[0])), float(mp.mpf(flat.v._mpi_[1]))
        out.append(("C02/D1/cell_to_lonlat-longitude-in-[-180,180]", lo >= -180.0 - 1e-12 and hi <= 180.0 + 1e-12,
                    "longitude returned by cell_to_lonlat lies in [%r, %r]" % (lo, hi), (lo, hi)))
        out.append(("C02/D1/cell_to_lonlat-latitude-in-[-90,90]", la >= -90.0 - 1e-12 and lb <= 90.0 + 1e-12,
                    "latitude returned by cell_to_lonlat lies in [%r, %r]" % (la, lb), (la, lb)))
    except (Unsupported, ShapeMismatch, ZeroDivisionError) as e:
        out.append(("C02/D1/cell_to_lonlat-longitude-in-[-180,180]", None, "undecided: %s" % e))
        out.append(("C02/D1/cell_to_lonlat-latitude-in-[-90,90]", None, "undecided: %s" % e))
    return out


def t_quintant(repo, specs, o):
    def fn(ctx):
        it = Interp(ctx, repo, registry(), specs)
        origins = it.module_global(repo.module("a5.core.origin"), "origins")
        origin = origins[o]
        q = it.ops.int_var("q")
        ctx.assume(zand(q >= 0, q < 5))
        seg, ori = it.call(Q2S, q, origin)
        ctx.oblige("segment-in-0..4", zand(zbool(it.ops.compare(">=", seg, 0)), zbool(it.ops.compare("<", seg, 5))), None, "post")
        q2, ori2 = it.call(S2Q, seg, origin)
        ctx.oblige("segment_to_quintant(quintant_to_segment(q))==q", zbool(it.ops.compare("==", q2, q)), None, "post")
        ctx.oblige("same-orientation", zbool(it.ops.equal(ori, ori2)), None, "post")
        # and the other way round
        g = it.ops.int_var("g")
        ctx.assume(zand(g >= 0, g < 5))
        qq, o1 = it.call(S2Q, g, origin)
        g2, o2 = it.call(Q2S, qq, origin)
        ctx.oblige("quintant_to_segment(segment_to_quintant(g))==g", zand(zbool(it.ops.compare("==", g2, g)), zbool(it.ops.equal(o1, o2))), None, "post")
        return {"q": q, "g": g}
    return fn


def native_lon_search():
    """Witness search on the real code: a cell whose centre longitude/latitude is out of range."""
    sys.path.insert(0, REPO)
    import a5
    bad = None
    n = 0
    for r in range(0, 4):
        for c in a5.cell_to_children(0, r):
            n += 1
            try:
                lon, lat = a5.cell_to_lonlat(c)
            except Exception as e:
                return {"confirmed": True, "input": hex(c), "observed": "raised %s: %s" % (type(e).__name__, e)}
            if not (-180.0 <= lon <= 180.0 and -90.0 <= lat <= 90.0):
                return {"confirmed": True, "input": hex(c), "observed": [lon, lat], "expected": "longitude in [-180, 180], latitude in [-90, 90]"}
    return {"confirmed": False, "note": "all %d cells of levels 0..3 have centres in range" % n}


def main(argv=None):
    a = parse_args(argv if argv is not None else sys.argv[1:])
    t0 = time.time()
    res = CheckResult("C02")
    repo = Repo(REPO)
    specs = specs_module()
    obs = d1(repo)
    n_ok = 0
    n_obl = 0
    samples = []
    for ob in obs:
        n_obl += 1
        name, ok, detail = ob[0], ob[1], ob[2]
        samples.append({"obligation": name, "ok": ok, "detail": detail})
        if ok is True:
            n_ok += 1
        elif ok is None:
            res.undecided.append("%s: %s" % (name, detail))
        else:
            rp = native_lon_search()
            path = write_replay_file("C02", name, {"property": "C02", "obligation": name, "detail": detail, "native": rp})
            res.violations.append((name, path, "" if rp.get("confirmed") else "no-failing-input-found"))
    # D2
    for o in range(12):
        out = run_task("C02/D2/quintant-segment-inverse[face=%d]" % o, t_quintant(repo, specs, o))
        if out.status != "ok":
            res.undecided.append("%s: %s" % (out.name, out.message))
            n_obl += 1
            continue
        names = {}
        for v in out.vcs:
            names.setdefault(v.name, []).append(v)
        for nm, vs in names.items():
            n_obl += 1
            if all(v.status == "valid" for v in vs):
                n_ok += 1
            elif any(v.status == "invalid" for v in vs):
                m = [v.model for v in vs if v.status == "invalid"][0]
                path = write_replay_file("C02", nm, {"property": "C02", "obligation": nm, "model": m, "face": o})
                res.violations.append((nm, path, "no-failing-input-found"))
            else:
                res.undecided.append("%s: solver unknown" % nm)
        if len(samples) < 20:
            samples.append({"obligation": out.name, "vcs": len(out.vcs), "seconds": round(out.seconds, 2)})
    coverage = {
        "obligations": n_obl,
        "discharged": n_ok,
        "checker_cmd": "python3-vt -m a5verif check C02 --tier %s" % a.tier,
        "trusted_base": TRUSTED,
        "functions_under_contract": [C2LL, TOLL, TOSPH, Q2S, S2Q],
        "backends": {"ivc": 3, "source-shape": 2, "z3": n_obl - 5},
        "samples": samples,
        "conjuncts_decided": ["longitude/latitude range of cell_to_lonlat for every cell", "segment<->quintant inverse on all faces"],
        "conjuncts_not_decided": ["centre strictly inside the cell's boundary ring", "lonlat_to_cell(cell_to_lonlat(c)) == c"],
        "solver_seconds": round(time.time() - t0, 2),
    }
    return finish("C02", a.tier, a.seed, t0, "proof", coverage, TRUSTED, res)


if __name__ == "__main__":
    sys.exit(main())

"""C12 (in part) - boundary rings under every option combination: the SHAPE conjuncts only.

Decided, for every cell of every resolution 0..29 (face, segment, position symbolic) and the option combinations
closed_ring in {True, False, omitted} x segments in {omitted, None, 'auto', 1, 2, 3, 5, 6, 7, 10, 16} (more in the thorough tier):
  * len(cell_to_boundary(c, options)) = (3 at resolution 1, else 5) * segments + (1 if closed_ring else 0), where for
    omitted / None / 'auto' `segments` is the integer >= 1 the code derives from the resolution alone;
  * with closed_ring the last vertex IS the first vertex; closed_ring defaults to true;
  * the options dictionary is not modified; the world cell gives [].
Method: the real code is executed symbolically in float mode 'opaque' - every float is abstracted to an unknown value,
comparisons of floats are non-deterministic (both outcomes explored), loops steered by floats are havocked - so only the
list / control structure is verified.  _get_pentagon's vertex count is proved per resolution and used through that
contract; DodecahedronProjection.inverse is replaced by an opaque result (its value does not influence the shape).
NOT decided (float geometry): simple, counter-clockwise, no 180-degree jumps, span < 180, corner points independent of
`segments`; latitude range is decided under C02 (same to_lonlat)."""
import sys
import z3

from .common import PTask, run_pyvc_check, specs_module, parse_args, BASE_TRUSTED
from .. import REPO
from ..pyvc.src import Repo
from ..pyvc.ctx import Settings, PyRaise
from ..pyvc.interp import Interp
from ..pyvc.interp_expr import HarnessStub
from ..pyvc.values import zand, zor, znot, zbool, Obj, OPQ
from ..contracts.registry import registry
from . import c05

GETPENT = "a5.core.cell._get_pentagon"
BOUNDARY = "a5.core.cell.cell_to_boundary"
SHAPE = Settings(float_mode="opaque")


def nverts(r):
    return 3 if r == 1 else 5


def t_pentagon(repo, specs, r):
    """_get_pentagon returns a shape with exactly 3 (resolution 1) or 5 vertices, for every cell of resolution r."""
    def fn(ctx):
        it = Interp(ctx, repo, registry(), specs)
        cell, inputs = c05.sym_cell(it, ctx, "c", r)
        ctx.assume(it.spec_bool("VALID_CELL(cell)", {"cell": cell}))
        # the anchor's value cannot change the vertex count: s_to_anchor is replaced by an arbitrary anchor
        # (pentagon number k in 0..3, flips in {+-1}^2, abstracted offset); the real s_to_anchor is verified under C18
        hmod = repo.module("a5.core.hilbert")
        k = it.ops.int_var("k")
        fx, fy = z3.Bool("fx"), z3.Bool("fy")
        ctx.assume(zand(k >= 0, k <= 3))

        def any_anchor(s_, res_, ori_):
            one, mone = it.ops.int_const(1), it.ops.int_const(-1)
            return it.construct(it.module_global(hmod, "Anchor"), [k, (OPQ, OPQ), (z3.If(fx, one, mone), z3.If(fy, one, mone))], {}, None, None)
        it.extra_globals["s_to_anchor"] = HarnessStub(any_anchor)
        p = it.call(GETPENT, cell)
        ok = isinstance(p, Obj) and p.cls == "PentagonShape" and isinstance(p.attrs.get("vertices"), list) and len(p.attrs["vertices"]) == nverts(r)
        ctx.oblige("_get_pentagon-returns-a-shape-with-%d-vertices" % nverts(r), ok, None, "post")
        return inputs
    return fn


def t_boundary(repo, specs, r, closed, segments):
    """closed / segments: a value, or the string 'omitted'."""
    def fn(ctx):
        it = Interp(ctx, repo, registry(), specs)
        cellmod = repo.module("a5.core.cell")
        cell, inputs = c05.sym_cell(it, ctx, "c", r)
        ctx.assume(it.spec_bool("VALID_CELL(cell)", {"cell": cell}))
        cid = it.eval_spec("ENC_CELL(cell)", None, {"cell": cell})
        n = nverts(r)

        def fake_pentagon(c):
            cls = it.module_global(repo.module("a5.geometry.pentagon"), "PentagonShape")
            return it.construct(cls, [[(OPQ, OPQ) for _ in range(n)]], {}, None, None)       # contract of _get_pentagon (t_pentagon)

        def fake_inverse(face, origin_id):
            return (OPQ, OPQ)
        it.extra_globals["_get_pentagon"] = HarnessStub(fake_pentagon)
        it.extra_globals["_dodecahedron"] = Obj("DodecahedronProjection", {"inverse": HarnessStub(fake_inverse)}, None)
        opts = {}
        if closed != "omitted":
            opts["closed_ring"] = closed
        if segments != "omitted":
            opts["segments"] = segments
        before = dict(opts)
        use_none = (closed == "omitted" and segments == "omitted")
        res = it.call(BOUNDARY, cid, None if use_none else opts)
        if segments in ("omitted", None, "auto"):
            seg = max(1, 2 ** (6 - r))
            seg = int(seg)
        else:
            seg = segments
        is_closed = True if closed == "omitted" else bool(closed)
        want = n * seg + (1 if is_closed else 0)
        ctx.oblige("vertex-count==(3 at resolution 1 else 5)*segments+closing-vertex", isinstance(res, list) and len(res) == want, None, "post")
        if is_closed and isinstance(res, list) and len(res) >= 2:
            ctx.oblige("closed-ring-repeats-the-first-vertex", res[0] is res[-1], None, "post")
        ctx.oblige("options-not-modified", opts == before, None, "frame")
        return inputs
    return fn


def t_world(repo, specs):
    def fn(ctx):
        it = Interp(ctx, repo, registry(), specs)
        res = it.call(BOUNDARY, 0)
        ctx.oblige("world-cell-has-no-boundary", res == [], None, "post")
        return {}
    return fn


SEGMENTS = ("omitted", None, "auto", 1, 2, 3, 5, 6, 7, 10, 16)
SEGMENTS_THOROUGH = SEGMENTS + (4, 8, 9, 11, 12, 13, 14, 15, 17, 19, 32, 64)
CLOSED = ("omitted", True, False)


def tasks(tier):
    repo = Repo(REPO)
    specs = specs_module()
    out = [PTask("C12/world", t_world(repo, specs), [BOUNDARY], deciding=True, replay_kind="boundary", settings=SHAPE)]
    for r in range(0, 30):
        out.append(PTask("C12/_get_pentagon[r=%d]" % r, t_pentagon(repo, specs, r), [GETPENT], deciding=True, replay_kind="boundary", settings=SHAPE,
                         timeout_ms=120000))
    levels = range(0, 30) if tier == "thorough" else (0, 1, 2, 3, 5, 6, 7, 12, 29)
    for r in levels:
        for c in CLOSED:
            for sg in (SEGMENTS_THOROUGH if tier == "thorough" else SEGMENTS):
                if tier == "thorough" and sg in SEGMENTS_THOROUGH[len(SEGMENTS):] and r not in (0, 1, 2, 7, 29):
                    continue
                if tier == "quick" and r > 7 and sg not in ("omitted", "auto", 3):
                    continue
                out.append(PTask("C12/boundary[r=%d,closed_ring=%s,segments=%s]" % (r, c, sg), t_boundary(repo, specs, r, c, sg), [BOUNDARY],
                                 deciding=True, replay_kind="boundary", settings=SHAPE))
    return out


ASSUMPTIONS = BASE_TRUSTED + [
    "float mode 'opaque': every float is an unknown value; float comparisons are non-deterministic; loops steered by floats are havocked and left (termination not proved); integer results of floats (floor, round) are outside the subset",
    "DodecahedronProjection.inverse is replaced by an opaque result: it cannot influence list lengths; that it returns at all is float geometry and not claimed",
    "_get_pentagon is used through its vertex-count contract, proved per resolution (tasks _get_pentagon[r=..])",
    "explicit `segments` values are the finite set {1,2,3,5,6,7,10,16} (thorough: also 4,8,9,11..15,17,19,32,64 at resolutions 0,1,2,7,29); other integers are not claimed",
]


def main(argv=None):
    a = parse_args(argv if argv is not None else sys.argv[1:])
    cmd = "python3-vt -m a5verif check C12 --tier %s" % a.tier
    return run_pyvc_check("C12", a.tier, a.seed, tasks(a.tier), ASSUMPTIONS, cmd)


if __name__ == "__main__":
    sys.exit(main())

"""C05 - cell ids are a faithful 64-bit code (serialize / deserialize / get_resolution)."""
import sys
import z3

from .common import PTask, run_pyvc_check, specs_module, parse_args, BASE_TRUSTED
from .. import REPO
from ..pyvc.src import Repo
from ..pyvc.ctx import Settings, PyRaise
from ..pyvc.interp import Interp
from ..pyvc.values import zand, zor, znot, zbool
from ..contracts.registry import registry

SER = "a5.core.serialization.serialize"
DES = "a5.core.serialization.deserialize"
GRES = "a5.core.serialization.get_resolution"
FUNCS = [SER, DES, GRES]
MAXR = 30     # the statement quantifies over 0..MAX_RESOLUTION; the constant is re-read below


def mk(ctx, repo, specs):
    return Interp(ctx, repo, registry(), specs)


def sym_cell(it, ctx, tag, r=None, rmax=None):
    """A symbolic cell; resolution concrete when r is given.  Returns (cell, inputs)."""
    cell = it.fresh_cell(tag)
    W = ctx.settings.width
    o = z3.BitVec(tag + "$o", W)
    g, S = cell["segment"], cell["S"]
    ctx.assume(zand(g >= 0, g < 5, S >= 0, S < (1 << 64)))
    if r is not None:
        cell["resolution"] = r
        inputs = {tag + "_o": o, tag + "_g": g, tag + "_S": S, tag + "_r": z3.BitVecVal(r, W)}
    else:
        rv = cell["resolution"]
        ctx.assume(zand(rv >= -1, rv <= (rmax if rmax is not None else 1 << 20)))
        inputs = {tag + "_o": o, tag + "_g": g, tag + "_S": S, tag + "_r": rv}
    return cell, inputs


def t_serialize(repo, specs, r):
    """serialize against its contract, taken from the statement: every cell whose position fits encodes
    to ENC(cell) in [1, 2^64); a position that does not fit (or r > MAX_RESOLUTION) raises ValueError."""
    def fn(ctx):
        it = mk(ctx, repo, specs)
        maxres = it.module_global(repo.module("a5.core.serialization"), "MAX_RESOLUTION")
        cell, inputs = sym_cell(it, ctx, "c", r, rmax=maxres)
        before = dict(cell)
        env = {"cell": dict(cell), "MAXR": maxres}
        unfit = it.spec_bool('cell["resolution"] > MAXR or cell["S"] >= SLIMIT(cell["resolution"])', env)
        try:
            res = it.call(SER, cell)
        except PyRaise as e:
            ctx.oblige("every-fitting-cell-encodes(raised %s)" % e.exc, unfit if e.exc == "ValueError" else False,
                       e.where, "raises")
            return inputs
        rr = cell["resolution"]
        # the clause is about resolutions 0..MAX_RESOLUTION; the world cell (-1) has no position at all
        ctx.oblige("never-silently-encodes-unfit-position", zor(znot(unfit), zbool(it.ops.compare("<", rr, 0))), None, "post")
        # frame: the id is a function of the cell's fields only if encoding leaves no trace in its argument
        same = set(cell.keys()) == set(before.keys()) and all(cell[k] is before[k] for k in before)
        ctx.oblige("frame:serialize-does-not-modify-its-argument", same, None, "frame")
        cell = dict(before)
        world = zbool(it.ops.compare("==", rr, -1))
        inrange = zand(zbool(it.ops.compare(">=", res, 1)), zbool(it.ops.compare("<", res, 1 << 64)))
        ctx.oblige("id-in-[1,2^64)-or-world-0", z3.If(world, zbool(it.ops.compare("==", res, 0)), inrange), None, "post")
        if r is None or r <= 29:
            ctx.oblige("post:result==ENC(cell)", it.spec_bool("result == ENC_CELL(cell)", {"cell": cell, "result": res}), None, "post")
        return inputs
    return fn


def t_get_resolution(repo, specs, r):
    def fn(ctx):
        it = mk(ctx, repo, specs)
        cell, inputs = sym_cell(it, ctx, "c", r)
        ctx.assume(it.spec_bool("VALID_CELL(cell)", {"cell": cell}))
        idv = it.eval_spec("ENC_CELL(cell)", None, {"cell": cell})
        res = it.call(GRES, idv)
        ctx.oblige("post:result==resolution", zbool(it.ops.compare("==", res, cell["resolution"])), None, "post")
        return inputs
    return fn


def t_deserialize(repo, specs, r):
    def fn(ctx):
        it = mk(ctx, repo, specs)
        cell, inputs = sym_cell(it, ctx, "c", r)
        ctx.assume(it.spec_bool("VALID_CELL(cell)", {"cell": cell}))
        idv = it.eval_spec("ENC_CELL(cell)", None, {"cell": cell})
        res = it.call(DES, idv)
        ctx.oblige("post:result==cell", it.spec_bool("CELLEQ(result, cell)", {"cell": cell, "result": res}), None, "post")
        return inputs
    return fn


def t_roundtrip(repo, specs, r):
    """Direct theorem over the inlined bodies: decoding an encoded cell recovers it."""
    def fn(ctx):
        it = mk(ctx, repo, specs)
        cell, inputs = sym_cell(it, ctx, "c", r, rmax=MAXR)
        ctx.assume(it.spec_bool('cell["S"] < SLIMIT(cell["resolution"])', {"cell": cell}))
        try:
            idv = it.call(SER, cell)
        except PyRaise:
            return inputs          # refusals are judged by the serialize task
        res = it.call(GRES, idv)
        ctx.oblige("get_resolution(serialize(c))==c.resolution", zbool(it.ops.compare("==", res, cell["resolution"])), None, "post")
        back = it.call(DES, idv)
        ctx.oblige("deserialize(serialize(c))==c", it.spec_bool("CELLEQ(back, cell)", {"cell": cell, "back": back}), None, "post")
        again = it.call(SER, back)
        ctx.oblige("serialize(deserialize(id))==id", zbool(it.ops.compare("==", again, idv)), None, "post")
        return inputs
    return fn


def t_injective(repo, specs, r1, r2):
    def fn(ctx):
        it = mk(ctx, repo, specs)
        c1, in1 = sym_cell(it, ctx, "c1", r1, rmax=MAXR)
        c2, in2 = sym_cell(it, ctx, "c2", r2, rmax=MAXR)
        inputs = dict(in1)
        inputs.update(in2)
        ctx.assume(it.spec_bool('a["S"] < SLIMIT(a["resolution"]) and b["S"] < SLIMIT(b["resolution"])', {"a": c1, "b": c2}))
        ctx.assume(znot(it.spec_bool("CELLEQ(a, b)", {"a": c1, "b": c2})))
        try:
            i1 = it.call(SER, c1)
            i2 = it.call(SER, c2)
        except PyRaise:
            return inputs
        ctx.oblige("distinct-cells-get-distinct-ids", znot(zbool(it.ops.compare("==", i1, i2))), None, "post")
        return inputs
    return fn


def tasks(tier):
    repo = Repo(REPO)
    specs = specs_module()
    out = []
    for r in range(-1, MAXR + 1):
        out.append(PTask("C05/serialize[r=%d]" % r, t_serialize(repo, specs, r), [SER], deciding=True, replay_kind="serialize"))
        out.append(PTask("C05/roundtrip[r=%d]" % r, t_roundtrip(repo, specs, r), FUNCS, deciding=True, replay_kind="roundtrip",
                         min_return_paths=1))
        if r <= 29:
            out.append(PTask("C05/get_resolution[r=%d]" % r, t_get_resolution(repo, specs, r), [GRES], replay_kind="roundtrip"))
            out.append(PTask("C05/deserialize[r=%d]" % r, t_deserialize(repo, specs, r), [DES, GRES], replay_kind="roundtrip"))
    # resolutions above MAX_RESOLUTION, symbolic
    out.append(PTask("C05/serialize[r>MAX]", t_serialize_above(repo, specs), [SER], deciding=True, replay_kind="serialize"))
    # injectivity: same resolution pairs symbolic-in-everything-else, plus mixed resolutions via the symbolic task
    out.append(PTask("C05/injective[r1,r2 symbolic]", t_injective(repo, specs, None, None), [SER], deciding=True,
                     replay_kind="injective", timeout_ms=120000))
    # "the ids enumerated at resolution r are exactly get_num_cells(r) many": expanding the world cell lists
    # NCHILD(-1, r) = NCELLS(r) ids without repetition (C06 children contract for the world cell) and
    # get_num_cells(r) = NCELLS(r) (C20 contract) - re-discharged here for the coarse levels, every level in thorough
    from . import c06, c20
    out.append(PTask("C05/count/get_num_cells", c20.t_num_cells(repo, specs), [c20.NUMCELLS], deciding=True, replay_kind="roundtrip"))
    for r in (range(0, 30) if tier == "thorough" else (0, 1, 2)):
        out.append(PTask("C05/count/children[world,to=%d]" % r, c06.t_children(repo, specs, -1, r), c06.FUNCS, deciding=True, replay_kind="roundtrip"))
        out.append(PTask("C05/count/no-repetition[world,to=%d]" % r, c06.t_child_parent(repo, specs, -1, r), c06.FUNCS, deciding=True,
                         replay_kind="roundtrip"))
    if tier == "thorough":
        out.append(PTask("C05/roundtrip[r symbolic]", t_roundtrip(repo, specs, None), FUNCS, deciding=True, replay_kind="roundtrip",
                         timeout_ms=120000))
        out.append(PTask("C05/serialize[r symbolic]", t_serialize(repo, specs, None), [SER], deciding=True, replay_kind="serialize"))
    return out


def t_serialize_above(repo, specs):
    def fn(ctx):
        it = mk(ctx, repo, specs)
        maxres = it.module_global(repo.module("a5.core.serialization"), "MAX_RESOLUTION")
        cell, inputs = sym_cell(it, ctx, "c", None)
        ctx.assume(cell["resolution"] > maxres)
        try:
            it.call(SER, cell)
        except PyRaise as e:
            ctx.oblige("raises-ValueError-above-MAX_RESOLUTION", e.exc == "ValueError", e.where, "raises")
            return inputs
        ctx.oblige("never-silently-encodes-unfit-position", False, None, "post")
        return inputs
    return fn


ASSUMPTIONS = BASE_TRUSTED + [
    "Python ints are modelled as 80-bit (quick) signed bit-vectors with a proved no-wrap obligation per +,-,*,<<; machine arithmetic is not assumed mathematical",
    "cell equality is the property's: a face cell (resolution 0) has no segment, the world cell (resolution -1) has no face",
    "inputs: face index 0..11 into the live origins table, segment 0..4, 0 <= S < 2^64, resolution -1..2^20 (S and resolution beyond are not explored)",
]


def main(argv=None):
    a = parse_args(argv if argv is not None else sys.argv[1:])
    cmd = "python3-vt -m a5verif check C05 --tier %s" % a.tier
    return run_pyvc_check("C05", a.tier, a.seed, tasks(a.tier), ASSUMPTIONS, cmd)


if __name__ == "__main__":
    sys.exit(main())

"""Shared driver for pyvc-based checks."""
import json
import os
import re
import sys
import time

from .. import REPO, VERIF
from ..framework import (TaskSpec, run_tasks, native_replay, write_replay_file, CheckResult, finish, summarize_outcomes,
                         load_known_findings)
from ..pyvc.src import Repo, ModuleInfo
from ..pyvc.ctx import Settings
from ..pyvc.prove import run_task

MODEL_LIMIT = re.compile(r"safety:(no-wrap|shift-count-in-model|index-non-negative|positive-divisor|non-negative-exponent|non-negative-repeat)")

BASE_TRUSTED = [
    "A1: CPython executes the accepted subset as DESIGN.md section 3.1 states (backed by the differential self-check, which is testing)",
    "A3: import-time initialisation is taken as executed: module tables (origins, PATTERN, ...) are read from the live module imported from /repo",
    "A5: termination is not proved for any loop",
    "z3 5.1 (and cvc5 1.0.3 on unknown / in the thorough tier) are trusted",
]


def specs_module():
    return ModuleInfo(None, "specs", os.path.join(VERIF, "a5verif", "contracts", "specs.py"))


class PTask:
    """One pyvc task: a harness function explored over all paths."""

    def __init__(self, name, fn, functions=(), deciding=False, replay_kind=None, settings=None, timeout_ms=60000,
                 min_return_paths=1, bounded=False, note="", replay_payload=None):
        self.replay_payload = replay_payload or {}
        self.name = name
        self.fn = fn
        self.functions = list(functions)
        self.deciding = deciding
        self.replay_kind = replay_kind
        self.settings = settings
        self.timeout_ms = timeout_ms
        self.min_return_paths = min_return_paths
        self.bounded = bounded
        self.note = note


def run_pyvc_check(prop, tier, seed, ptasks, assumptions, checker_cmd, extra_coverage=None, extra_steps=None,
                   level="proof"):
    """Run all tasks, classify VCs, replay counter-models, write evidence; returns the exit code."""
    t0 = time.time()
    kf = load_known_findings()
    known = [k for k in kf.get("findings", []) if k["property"] == prop]
    both = tier == "thorough"
    by_name = {t.name: t for t in ptasks}

    def mk_runner(t):
        def runner():
            out = run_task(t.name, t.fn, settings=t.settings, timeout_ms=t.timeout_ms * (5 if both else 1), both=both,
                           min_return_paths=t.min_return_paths, known=known)
            return out.to_json()
        return runner

    specs = [TaskSpec(t.name, mk_runner(t), t.functions, t.bounded, t.note) for t in ptasks]
    outcomes = run_tasks(specs)
    res = CheckResult(prop)
    bounded_done = {}
    named = summarize_outcomes(outcomes)
    n_obl = len(named)
    n_dis = 0
    known_hit_ids = {}
    samples = []
    functions = set()
    for o in sorted(outcomes, key=lambda x: x["name"]):
        functions.update(o.get("functions", []))
        if o["status"] in ("unsupported", "shape-mismatch"):
            # the body left the accepted subset (or the contract no longer matches its shape): nothing is proved.
            # Bounded stand-in: the property-level predicate is evaluated natively over a small structured pool;
            # a failure there is a real failing input, a pass proves nothing (undecided).
            t = by_name.get(o["name"])
            key = (t.replay_kind, json.dumps(t.replay_payload, sort_keys=True)) if t is not None else None
            if t is not None and t.replay_kind and key not in bounded_done:
                payload = dict(t.replay_payload)
                payload.update({"obligation": o["name"], "model": {}})
                bounded_done[key] = native_replay(prop, t.replay_kind, payload)
            rp = bounded_done.get(key) if key else None
            if rp and rp.get("confirmed"):
                rec = {"property": prop, "obligation": o["name"] + "/bounded-stand-in", "reason": o["message"], "native": rp,
                       "replay_kind": t.replay_kind, "model": {}, "bounded": True}
                path = write_replay_file(prop, o["name"], rec)
                if not any(v[0].endswith("/bounded-stand-in") for v in res.violations):
                    res.violations.append((o["name"] + "/bounded-stand-in", path, ""))
            res.undecided.append("%s: %s%s" % (o["name"], o["message"], " [bounded stand-in: %s]" % (rp.get("note") or "failing input found") if rp else ""))
        elif o["status"] == "error":
            res.errors.append("%s: %s" % (o["name"], (o["message"] or "")[:1500]))
    for name, n in sorted(named.items()):
        tname = task_of(name, by_name)
        t = by_name.get(tname)
        if name.endswith("[known-finding-domain]"):
            n_obl -= 1
            continue
        if n["invalid"] == 0 and n["unknown"] == 0:
            n_dis += 1
            continue
        if n["invalid"] > 0:
            if "/cover:" in name:
                res.errors.append("%s: the assumptions of this harness are contradictory (vacuous contract)" % name)
                continue
            if MODEL_LIMIT.search(name):
                res.undecided.append("%s: outside the integer/index model (counter-model %s)" % (name, n["models"][0]))
                continue
            model = n["models"][0]
            rec = {"property": prop, "obligation": name, "where": n["where"], "kind": n["kind"], "solver": n["solvers"],
                   "model": model, "deciding": bool(t and t.deciding),
                   "replay_kind": t.replay_kind if t else None}
            confirmed = None
            if t is not None and t.replay_kind and model is not None:
                payload = dict(t.replay_payload)
                payload.update({"obligation": name, "model": model})
                rp = native_replay(prop, t.replay_kind, payload)
                rec["native"] = rp
                confirmed = rp.get("confirmed")
            path = write_replay_file(prop, name, rec)
            if confirmed:
                res.violations.append((name, path, ""))
            else:
                res.violations.append((name, path, "no-failing-input-found"))
        else:
            # `unknown` is never a violation by itself (DESIGN section 6): look for a real failing input on the
            # bounded pool; a native failure is reported with its replay, otherwise the check is undecided
            rp = None
            if t is not None and t.replay_kind:
                key = (t.replay_kind, json.dumps(t.replay_payload, sort_keys=True))
                if key not in bounded_done:
                    payload = dict(t.replay_payload)
                    payload.update({"obligation": name, "model": {}})
                    bounded_done[key] = native_replay(prop, t.replay_kind, payload)
                rp = bounded_done[key]
            if rp and rp.get("confirmed"):
                rec = {"property": prop, "obligation": name, "solver": "unknown", "native": rp, "replay_kind": t.replay_kind, "model": {},
                       "note": "obligation undecided by the solver; failing input found by the bounded native search"}
                path = write_replay_file(prop, name, rec)
                res.violations.append((name, path, ""))
            else:
                res.undecided.append("%s: solver returned unknown on %d instance(s)%s" % (
                    name, n["unknown"], " [bounded native search: %s]" % rp.get("note") if rp else ""))
    # known findings that were reproduced inside their domain
    for name, n in sorted(named.items()):
        if name.endswith("[known-finding-domain]"):
            base = name[: -len("[known-finding-domain]")]
            fid = None
            for k in known:
                if re.fullmatch(k["obligation"], base):
                    fid = k
            model = n["models"][0] if n.get("models") else None
            # models of 'known' status are kept in the vcs list
            for o in outcomes:
                for v in o["vcs"]:
                    if v["name"] == name and v.get("model"):
                        model = v["model"]
            t = by_name.get(task_of(base, by_name))
            rp = native_replay(prop, t.replay_kind, {"obligation": base, "model": model}) if (t and t.replay_kind and model) else {}
            if fid is not None:
                known_hit_ids[fid["id"]] = {"model": model, "native": rp}
                res.known_hits.append("%s (%s) obligation=%s witness=%s native_confirmed=%s" % (
                    fid["what"], fid["id"], base, json.dumps(model), rp.get("confirmed")))
    for name, n in list(sorted(named.items()))[:400]:
        if len(samples) < 25 and not name.endswith("[known-finding-domain]"):
            samples.append({"obligation": name, "instances": n["instances"], "solvers": n["solvers"], "seconds": n["seconds"],
                            "kind": n["kind"], "where": n["where"]})
    coverage = {
        "obligations": n_obl,
        "discharged": n_dis,
        "vc_instances": sum(n["instances"] for n in named.values()),
        "checker_cmd": checker_cmd,
        "trusted_base": assumptions,
        "functions_under_contract": sorted(functions),
        "backends": backend_counts(outcomes),
        "solver_seconds": round(sum(o.get("solver_seconds", 0.0) for o in outcomes), 3),
        "paths_explored": sum(o.get("paths", 0) for o in outcomes),
        "side_conditions_discharged_by_interval_analysis": sum((o.get("meta") or {}).get("side_conditions_discharged_by_interval_analysis", 0) for o in outcomes),
        "tasks": [{"name": o["name"], "status": o["status"], "paths": o["paths"], "returns": o["returns"], "vcs": len(o["vcs"]),
                   "seconds": o["seconds"], "bounded": o.get("bounded", False)} for o in sorted(outcomes, key=lambda x: x["name"])],
        "samples": samples,
        "known_findings_hit": known_hit_ids,
        "repo": REPO,
    }
    if extra_coverage:
        coverage.update(extra_coverage)
    if extra_steps:
        for step in extra_steps:
            step(res, coverage)
    if n_obl == 0:
        res.errors.append("vacuous: zero obligations generated")
    return finish(prop, tier, seed, t0, level, coverage, assumptions, res)


def task_of(vcname, by_name):
    best = None
    for tn in by_name:
        if vcname.startswith(tn + "/") and (best is None or len(tn) > len(best)):
            best = tn
    return best


def backend_counts(outcomes):
    c = {}
    for o in outcomes:
        for v in o["vcs"]:
            k = v["solver"].replace("(dup)", "")
            c[k] = c.get(k, 0) + 1
    return c


def parse_args(argv):
    import argparse
    ap = argparse.ArgumentParser()
    ap.add_argument("--tier", default=os.environ.get("VERIF_TIER", "quick"), choices=["quick", "thorough"])
    ap.add_argument("--seed", type=int, default=int(os.environ.get("VERIF_SEED", "0") or 0))
    return ap.parse_args(argv)

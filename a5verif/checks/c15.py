"""C15 - geodetic <-> authalic latitude conversion is accurate and invertible (engine ivc).

Contracts on AuthalicProjection.forward / inverse (bodies re-read from the AST, evaluated over second-order interval
jets with outward rounding and a running binary64 rounding-error bound), decided for every real latitude in
[-pi/2, pi/2] by adaptive branch and bound; oddness by a parity analysis of the AST; fixed points by executing the
three-point domain."""
import math
import multiprocessing
import os
import sys
import time

from mpmath import iv, mp

from .. import REPO, VERIF
from ..framework import CheckResult, finish, write_replay_file
from ..pyvc.src import Repo, ShapeMismatch
from ..ivc.jets import J, jsin, jcos, jasin, jatanh, mag
from ..ivc.evalast import FloatEval, Unsupported
from ..ivc.parity import parity_of_function
from .common import parse_args

FWD = "a5.projections.authalic.AuthalicProjection.forward"
INV = "a5.projections.authalic.AuthalicProjection.inverse"
TOL_ACC = 1e-10
TOL_RT = 1e-12
PREC = 160

TRUSTED = [
    "A7: libm sin and cos are accurate to 1 ulp, sin is odd and cos is even exactly; mpmath.iv outward rounding is sound",
    "the binary64 result of the real code differs from the exact real-arithmetic value of the same expression by at most the running error bound computed alongside (unit roundoff 2^-53 per operation, 1 ulp per libm call); the bound is subtracted from the tolerance",
    "reference: xi(phi) = asin(q(phi)/q(pi/2)), q = (1-e^2)(sin phi/(1-e^2 sin^2 phi) + atanh(e sin phi)/e), WGS84 e^2 = f(2-f), f = 1/298.257223563, evaluated in %d-bit interval arithmetic" % PREC,
    "oddness: parity abstract interpretation of the AST (phi odd, sin odd, cos even, products/sums by the usual rules); it gives f(-phi) = -f(phi) exactly in binary64 under A7, so accuracy and round trip are decided on [0, pi/2]",
    "the AST evaluator accepts straight-line float code only (DESIGN.md section 4); any other construct makes the check undecided",
]


def xi_jet(x):
    """Closed-form authalic latitude as a jet (high precision intervals)."""
    f = iv.mpf(1) / iv.mpf("298.257223563")
    e2 = f * (2 - f)
    e = iv.sqrt(e2)
    s = jsin(x)
    s.err = 0.0

    def q(sj):
        den = J.const(1) - J(e2) * sj * sj
        return J(1 - e2) * (sj / den + jatanh(J(e) * sj) / J(e))
    qp = q(J.const(1))
    return q(s) / qp, qp


def xi_interval(box):
    """Enclosure of xi over a box by direct evaluation (no derivatives); the upper end is clamped to pi/2."""
    S, _ = xi_jet(J(box, 0, 0))
    lo = S.v.a
    half_pi = iv.pi / 2
    one = iv.mpf(1)
    if lo >= 1:
        return iv.mpf([half_pi.a, half_pi.b])
    r = iv.sqrt(1 - iv.mpf(lo) * iv.mpf(lo))
    xlo = iv.atan2(iv.mpf(lo), r).a
    if S.v.b >= 1:
        xhi = half_pi.b
    else:
        xhi = iv.atan2(iv.mpf(S.v.b), iv.sqrt(1 - iv.mpf(S.v.b) * iv.mpf(S.v.b))).b
    return iv.mpf([xlo, xhi])


def real_jet(ev, qual, x):
    return ev.call(qual, x)


def acc_bound(ev, a, b):
    """Upper bound of |forward - xi| on [a, b] (exact real arithmetic), or None if not obtainable on this box."""
    box = iv.mpf([a, b])
    m = (iv.mpf(a) + iv.mpf(b)) / 2
    m = iv.mpf(m.a)
    h = (iv.mpf(b) - iv.mpf(a)) / 2
    # order 0: direct enclosures
    ev.piecewise = False
    try:
        F0 = real_jet(ev, FWD, J(box, 0, 0))
        X0 = xi_interval(box)
        d0 = F0.v - X0
        b0 = mag(d0)
    except ZeroDivisionError:
        b0 = None
    best = b0
    if ev.piecewise:
        return best          # the box meets more than one piece of a branching body: no Taylor form across pieces
    # order 2: Taylor form around the midpoint
    try:
        Fm = real_jet(ev, FWD, J.var(m))
        Fb = real_jet(ev, FWD, J.var(box))
        Sm, _ = xi_jet(J.var(m))
        Sb, _ = xi_jet(J.var(box))
        Xm, Xb = jasin(Sm), jasin(Sb)
        hh = mag(h)
        t = mag(Fm.v - Xm.v) + mag(Fm.d1 - Xm.d1) * hh + mag(Fb.d2 - Xb.d2) * hh * hh / 2
        if not ev.piecewise and (best is None or t < best):
            best = t
    except ZeroDivisionError:
        pass
    return best


def rt_bound(ev, a, b):
    """Upper bound of |inverse(forward(phi)) - phi| on [a, b] (exact real arithmetic)."""
    box = iv.mpf([a, b])
    m = iv.mpf(((iv.mpf(a) + iv.mpf(b)) / 2).a)
    h = (iv.mpf(b) - iv.mpf(a)) / 2
    ev.piecewise = False
    G0 = real_jet(ev, INV, real_jet(ev, FWD, J(box, 0, 0)))
    b0 = mag(G0.v - box)
    if ev.piecewise:
        return b0            # more than one piece of a branching body: plain range enclosure only
    Gm = real_jet(ev, INV, real_jet(ev, FWD, J.var(m)))
    Gb = real_jet(ev, INV, real_jet(ev, FWD, J.var(box)))
    if ev.piecewise:
        return b0
    hh = mag(h)
    return min(b0, mag(Gm.v - m) + mag(Gm.d1 - 1) * hh + mag(Gb.d2) * hh * hh / 2)


def rounding_bound(ev):
    """Global bound on the binary64 rounding error of forward and of inverse(forward) over the whole domain."""
    iv.prec = 60
    box = iv.mpf([-1.5707963267948968, 1.5707963267948968])
    f = real_jet(ev, FWD, J(box, 0, 0))
    g = real_jet(ev, INV, f)
    return float(f.err), float(g.err)


def _chunk(args):
    kind, a, b, tol, repo_root = args
    iv.prec = PREC
    ev = FloatEval(Repo(repo_root))
    boxes = 0
    worst = 0.0
    stack = [(a, b)]
    fail = None
    try:
        while stack:
            lo, hi = stack.pop()
            boxes += 1
            bd = acc_bound(ev, lo, hi) if kind == "acc" else rt_bound(ev, lo, hi)
            if bd is not None and bd <= tol:
                worst = max(worst, float(bd))
                continue
            if hi - lo < 1e-14 or boxes > 200000:
                fail = {"box": [lo, hi], "bound": None if bd is None else float(bd)}
                break
            mid = (lo + hi) / 2
            stack.append((lo, mid))
            stack.append((mid, hi))
    except Unsupported as e:
        return {"kind": kind, "unsupported": str(e), "boxes": boxes}
    except ShapeMismatch as e:
        return {"kind": kind, "unsupported": str(e), "boxes": boxes}
    return {"kind": kind, "boxes": boxes, "worst": worst, "fail": fail, "range": [a, b]}


def closed_form_mp(phi):
    mp.prec = 200
    f = mp.mpf(1) / mp.mpf("298.257223563")
    e2 = f * (2 - f)
    e = mp.sqrt(e2)

    def q(s):
        return (1 - e2) * (s / (1 - e2 * s * s) + mp.atanh(e * s) / e)
    if abs(phi) == math.pi / 2:
        pass
    s = mp.sin(mp.mpf(phi))
    return mp.asin(q(s) / q(mp.mpf(1)))


def native_search(points=None):
    """Counter-example search on the real binary64 code (also used as replay)."""
    sys.path.insert(0, REPO)
    from a5.projections.authalic import AuthalicProjection
    A = AuthalicProjection()
    pts = list(points or [])
    if not pts:
        n = 4000
        pts = [-math.pi / 2 + math.pi * i / n for i in range(n + 1)]
        for k in range(1, 16 * 8):
            d = 10 ** (-k / 8.0)
            pts += [d, -d, math.pi / 2 - d, -math.pi / 2 + d]
        pts += [0.0, math.pi / 2, -math.pi / 2]
    prev = None
    for phi in sorted(set(pts)):
        if not (-math.pi / 2 <= phi <= math.pi / 2):
            continue
        try:
            f = A.forward(phi)
            g = A.inverse(f)
        except Exception as e:
            return {"confirmed": True, "input": phi, "observed": "raised %s: %s" % (type(e).__name__, e)}
        ref = closed_form_mp(phi)
        if abs(mp.mpf(f) - ref) > TOL_ACC:
            return {"confirmed": True, "input": phi, "clause": "accuracy", "observed": f, "expected": float(ref), "error": float(abs(mp.mpf(f) - ref))}
        if abs(g - phi) > TOL_RT:
            return {"confirmed": True, "input": phi, "clause": "round trip", "observed": g, "expected": phi, "error": abs(g - phi)}
        if A.forward(-phi) != -f:
            return {"confirmed": True, "input": phi, "clause": "odd", "observed": [A.forward(-phi), f]}
        if prev is not None and not (f > prev[1]) and phi > prev[0]:
            return {"confirmed": True, "input": [prev[0], phi], "clause": "strictly increasing", "observed": [prev[1], f]}
        prev = (phi, f)
    # history dependence: the same point asked again after its neighbours
    for a, b in ((0.5, 0.5 + 3e-11), (2.37e-10, 1.78e-10), (1.2, 1.2 + 5e-11)):
        A2 = AuthalicProjection()
        A2.forward(a)
        fb = A2.forward(b)
        if abs(mp.mpf(fb) - closed_form_mp(b)) > TOL_ACC or abs(A2.inverse(fb) - b) > TOL_RT or not (fb > A2.forward(a) or b <= a):
            return {"confirmed": True, "input": [a, b], "clause": "call history", "observed": fb}
    return {"confirmed": False, "note": "no violation at %d sample latitudes" % len(set(pts))}


def main(argv=None):
    a = parse_args(argv if argv is not None else sys.argv[1:])
    t0 = time.time()
    res = CheckResult("C15")
    repo = Repo(REPO)
    obligations = []          # (name, ok True/False/None, detail)
    boxes_total = 0
    iv.prec = PREC
    # 0. quick refutation on the real code
    ns = native_search()
    # 1. parity (oddness)
    try:
        par = parity_of_function(repo, FWD)
        # odd: proved; even: refuted (an even function that is not identically zero is not odd); anything else is
        # outside the parity analysis and leaves the obligation undecided, never violated
        verdict = {"odd": True, "even": False}
        obligations.append(("C15/forward/odd(parity-of-AST)", verdict.get(par), ("parity of the result: %s" % par) if par in verdict else
                            "undecided: the parity analysis does not cover this body (result %s)" % par))
        par2 = parity_of_function(repo, INV)
        obligations.append(("C15/inverse/odd(parity-of-AST)", verdict.get(par2), ("parity of the result: %s" % par2) if par2 in verdict else
                            "undecided: the parity analysis does not cover this body (result %s)" % par2))
    except Exception as e:
        obligations.append(("C15/forward/odd(parity-of-AST)", None, "undecided: %s" % e))
    # 2. rounding error bounds
    unsupported = None
    try:
        ev = FloatEval(repo)
        rho_f, rho_g = rounding_bound(ev)
        iv.prec = PREC
    except (Unsupported, ShapeMismatch, ZeroDivisionError) as e:
        unsupported = str(e)
        rho_f = rho_g = 0.0
    chunks = []
    if unsupported is None:
        n = 64 if a.tier == "quick" else 256
        hp = 1.5707963267948968     # >= pi/2 as a binary64 number
        edges = [hp * i / n for i in range(n + 1)]
        for i in range(n):
            chunks.append(("acc", edges[i], edges[i + 1], TOL_ACC - rho_f - 1e-16, REPO))
            chunks.append(("rt", edges[i], edges[i + 1], TOL_RT - rho_g - 1e-16, REPO))
        with multiprocessing.get_context("fork").Pool(16) as pool:
            outs = pool.map(_chunk, chunks, chunksize=1)
        for kind, label, tol in (("acc", "C15/forward/|forward-xi|<=1e-10", TOL_ACC), ("rt", "C15/inverse(forward(phi))-phi<=1e-12", TOL_RT)):
            mine = [o for o in outs if o["kind"] == kind]
            boxes_total += sum(o["boxes"] for o in mine)
            uns = [o for o in mine if "unsupported" in o]
            fails = [o for o in mine if o.get("fail")]
            if uns:
                obligations.append((label, None, "undecided: %s" % uns[0]["unsupported"]))
            elif fails:
                obligations.append((label, False, "box %s cannot be bounded below the tolerance (bound %s)" % (fails[0]["fail"]["box"], fails[0]["fail"]["bound"]),
                                    fails[0]["fail"]["box"]))
            else:
                obligations.append((label, True, "%d boxes on [0, pi/2], largest bound %.3e + rounding %.1e" % (
                    sum(o["boxes"] for o in mine), max(o["worst"] for o in mine), rho_f if kind == "acc" else rho_g)))
        # 3. strictly increasing: forward' > 0 on coarse boxes
        try:
            ok = True
            lowest = 9.0
            nb = 400
            ev.piecewise = False
            for i in range(nb):
                box = iv.mpf([hp * i / nb, hp * (i + 1) / nb])
                d1 = real_jet(ev, FWD, J.var(box)).d1
                if ev.piecewise:
                    raise Unsupported("the body branches on the latitude: a derivative bound per piece does not exclude a jump between pieces")
                dlo = float(mp.mpf(d1._mpi_[0]))
                lowest = min(lowest, dlo)
                if dlo <= 1e-3:
                    ok = False
            obligations.append(("C15/forward/strictly-increasing(derivative>0)", ok, "forward' >= %.6f on %d boxes (real arithmetic; rounding %.1e << spacing*0.99 is covered by the float sampling below only)" % (lowest, nb, rho_f)))
        except (Unsupported, ZeroDivisionError) as e:
            obligations.append(("C15/forward/strictly-increasing(derivative>0)", None, "undecided: %s" % e))
    else:
        obligations.append(("C15/forward/|forward-xi|<=1e-10", None, "undecided: %s" % unsupported))
        obligations.append(("C15/inverse(forward(phi))-phi<=1e-12", None, "undecided: %s" % unsupported))
    # 4. fixed points: three-point domain executed on the real code
    sys.path.insert(0, REPO)
    try:
        from a5.projections.authalic import AuthalicProjection
        from a5.core.coordinate_transforms import from_lonlat, to_lonlat
        A = AuthalicProjection()
        fp = A.forward(0.0) == 0.0 and A.forward(math.pi / 2) == math.pi / 2 and A.forward(-math.pi / 2) == -math.pi / 2 and \
            A.inverse(0.0) == 0.0 and A.inverse(math.pi / 2) == math.pi / 2
        ll = all(abs(to_lonlat(from_lonlat((10.0, lat)))[1] - lat) <= 1e-12 for lat in (0.0, 90.0, -90.0))
        obligations.append(("C15/fixed-points(0,+-90)", bool(fp and ll), "forward/inverse fix 0 and +-pi/2 exactly; to_lonlat(from_lonlat) fixes latitudes 0, +-90"))
    except Exception as e:
        obligations.append(("C15/fixed-points(0,+-90)", False, "raised %s: %s" % (type(e).__name__, e)))
    # verdicts
    n_ok = 0
    for ob in obligations:
        name, ok, detail = ob[0], ob[1], ob[2]
        if ok is True:
            n_ok += 1
        elif ok is None:
            res.undecided.append("%s: %s" % (name, detail))
        else:
            pts = None
            if len(ob) > 3:
                lo, hi = ob[3]
                pts = [lo, hi, (lo + hi) / 2, -lo, -hi]
            rp = native_search(pts) if pts else ns
            if not rp.get("confirmed"):
                rp = ns
            path = write_replay_file("C15", name, {"property": "C15", "obligation": name, "detail": detail, "native": rp})
            res.violations.append((name, path, "" if rp.get("confirmed") else "no-failing-input-found"))
    if ns.get("confirmed") and not res.violations:
        # the real code fails at a sample point although every obligation was discharged or undecided
        path = write_replay_file("C15", "C15/native-sample", {"property": "C15", "obligation": "C15/native-sample", "native": ns})
        res.violations.append(("C15/native-sample (bounded stand-in)", path, ""))
    coverage = {
        "obligations": len(obligations),
        "discharged": n_ok,
        "checker_cmd": "python3-vt -m a5verif check C15 --tier %s" % a.tier,
        "trusted_base": TRUSTED,
        "functions_under_contract": [FWD, INV, "a5.projections.authalic.AuthalicProjection._apply_coefficients"],
        "backends": {"ivc (interval jets, mpmath.iv %d bit)" % PREC: len(obligations) - 1, "native (3-point domain)": 1},
        "boxes": boxes_total,
        "rounding_error_bound": {"forward": rho_f, "inverse(forward)": rho_g},
        "samples": [{"obligation": o[0], "ok": o[1], "detail": o[2]} for o in obligations],
        "bounded": {"native_sample_search": ns},
        "solver_seconds": round(time.time() - t0, 2),
    }
    return finish("C15", a.tier, a.seed, t0, "proof", coverage, TRUSTED, res)


if __name__ == "__main__":
    sys.exit(main())

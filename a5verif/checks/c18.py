"""C18 - curve index <-> lattice position is a bijection for all orientations and levels (a5/core/hilbert.py)."""
import ast
import sys
import z3

from .common import PTask, run_pyvc_check, specs_module, parse_args, BASE_TRUSTED
from .. import REPO
from ..pyvc.src import Repo, ShapeMismatch
from ..pyvc.ctx import Settings, PyRaise
from ..pyvc.interp import Interp
from ..pyvc.interp_stmt import Frame, _Return
from ..pyvc.values import zand, zor, znot, zbool
from ..contracts.registry import registry

S2A = "a5.core.hilbert._s_to_anchor"
IJ2S = "a5.core.hilbert._ij_to_s"
CLASSES = {"uv/vu": (False, False), "wv/vw": (True, False), "wu/uw": (False, True)}


def first_for(fnode):
    for i, st in enumerate(fnode.body):
        if isinstance(st, ast.For):
            return i
    raise RuntimeError("CONTRACT-SHAPE-MISMATCH: no for loop in %s" % fnode.name)


def t_digits(repo, specs, h, invert_j, flip_ij):
    """Part A: the digit pipeline is the identity.  The statements of _s_to_anchor up to and including its first for
    loop (digit extraction, padding, shifting) are executed on a symbolic index S in [0, 4^h); the resulting digit
    list and flip state are handed to the statements of _ij_to_s that follow its first for loop (un-shifting,
    recombination).  All loops have the concrete length h and are unrolled completely.

    Ghost code at the loop boundaries (sidecar, via iteration hooks): the shifting pass records, for every step i, the
    flip state and the digit it found; after step i of the un-shifting pass it is asserted (and from then on used) that
    the flip state is the recorded one and that the two digits the step touched are back to their recorded values -
    so every VC is local to one shift / un-shift pair."""
    def fn(ctx):
        it = Interp(ctx, repo, registry(), specs)
        ops = it.ops
        S = ops.int_var("S")
        ctx.assume(zand(S >= 0, S < (1 << (2 * h))))
        mod, f1, _ = repo.function(S2A)
        i1 = first_for(f1)
        fr = Frame(mod, f1, S2A, {"s": S, "resolution": h, "invert_j": invert_j, "flip_ij": flip_ij})
        it.exec_block(fr, f1.body[:i1])
        D0 = list(fr.locals["digits"])
        ctx.oblige("digit-list-has-h-digits", len(D0) == h, None, "post")
        before_digit, before_flips = {}, {}

        def pass1(itp, frame, i, phase):
            if phase == "pre":
                before_digit[i] = frame.locals["digits"][i]
                before_flips[i] = tuple(frame.locals["flips"])
        it.loop_hooks = {(S2A, fr.loops.index(f1.body[i1])): pass1}
        it.exec_block(fr, [f1.body[i1]])
        D, FL = fr.locals["digits"], fr.locals["flips"]
        for k, d in enumerate(D):
            ctx.oblige("shifted-digit-%d-in-0..3" % k, zand(zbool(ops.compare(">=", d, 0)), zbool(ops.compare("<=", d, 3))), None, "post")
        mod2, f2, _ = repo.function(IJ2S)
        i2 = first_for(f2)
        fr2 = Frame(mod2, f2, IJ2S, {"input_ij": None, "invert_j": invert_j, "flip_ij": flip_ij, "resolution": h, "num_digits": h,
                                      "digits": list(D), "flips": list(FL)})
        rest = f2.body[i2 + 1:]
        j2 = None
        for j, st in enumerate(rest):
            if isinstance(st, ast.For):
                j2 = j
                break

        def pass2(itp, frame, i, phase):
            if phase != "post":
                return
            fl, dg = frame.locals["flips"], frame.locals["digits"]
            if i not in before_flips:
                # the shifting pass of s_to_anchor did not visit this position: the ghost script (one recorded state
                # per position) does not fit the code any more - nothing is claimed
                raise ShapeMismatch("CONTRACT-SHAPE-MISMATCH %s: the shifting loop does not visit digit position %d, which the un-shifting loop of %s visits" % (S2A, i, IJ2S))
            bf = before_flips[i]
            ctx.oblige("unshift-step-%d: flip state is the one the shift step saw" % i,
                       zand(zbool(ops.compare("==", fl[0], bf[0])), zbool(ops.compare("==", fl[1], bf[1]))), None, "ghost-assert")
            fl[0], fl[1] = bf[0], bf[1]
            ctx.oblige("unshift-step-%d: digit %d is back to the value the shift step found" % (i, i),
                       zbool(ops.compare("==", dg[i], before_digit[i])), None, "ghost-assert")
            dg[i] = before_digit[i]
            if i >= 1:
                ctx.oblige("unshift-step-%d: digit %d is the extracted digit again" % (i, i - 1),
                           zbool(ops.compare("==", dg[i - 1], D0[i - 1])), None, "ghost-assert")
                dg[i - 1] = D0[i - 1]
        it.loop_hooks = {(IJ2S, fr2.loops.index(rest[j2])): pass2} if j2 is not None else {}
        out = None
        try:
            it.exec_block(fr2, rest[:j2 + 1] if j2 is not None else [])
            dg = fr2.locals["digits"]
            ctx.oblige("top-digit-untouched", zbool(ops.compare("==", dg[h - 1], D0[h - 1])), None, "ghost-assert")
            dg[h - 1] = D0[h - 1]
            it.loop_hooks = {}
            it.exec_block(fr2, rest[j2 + 1:] if j2 is not None else rest)
        except _Return as r:
            out = r.value
        ctx.oblige("unshift-and-recombine(shift(digits(S)))==S", zbool(ops.compare("==", out, S)) if out is not None else False, None, "post")
        return {"S": S}
    return fn


Q2KJ = "a5.core.hilbert.quaternary_to_kj"
KJ2IJ = "a5.core.hilbert.kj_to_ij"
Q2F = "a5.core.hilbert.quaternary_to_flips"
IJ2Q = "a5.core.hilbert.ij_to_quaternary"
REAL = Settings(float_mode="real")
DIGITS = Settings(name_deep_terms=4)


def t_step(repo, specs, fx, fy, q):
    """Inductive step of the digit recovery loop of _ij_to_s (its loop 0), over the real functions and real numbers:
    if the remainder x lies in s*Tri(f'), at least eps inside, then R = c(q,f)*2s + x lies in 2s*Tri(f), at least eps
    inside, and ij_to_quaternary(R/(2s), f) is q - for every scale 1/2 <= s <= 2^27 (all digit positions of levels
    <= 28) and every margin eps >= 1/10 (the base-case margin)."""
    def fn(ctx):
        it = Interp(ctx, repo, registry(), specs)
        x0, x1, s, eps = z3.Real("x0"), z3.Real("x1"), z3.Real("s"), z3.Real("eps")
        # s = 2^(i-1) for the digit position i = 0..27; eps = the margin established by the base case (part C)
        ctx.assume(zand(2 * s >= 1, s <= 2 ** 27, 10 * eps >= 1))
        f = (fx, fy)
        nf = it.call(Q2F, q)
        f2 = (fx * nf[0], fy * nf[1])
        c = it.call(KJ2IJ, it.call(Q2KJ, q, f))
        env = {"x0": x0, "x1": x1, "s": s, "eps": eps}
        ctx.assume(it.spec_bool("IN_INSET_TRI(%d, %d, x0, x1, s, eps)" % (f2[0], f2[1]), env))
        R0 = it.ops.binop("+", it.ops.binop("*", c[0], 2 * s, "step"), x0, "step")
        R1 = it.ops.binop("+", it.ops.binop("*", c[1], 2 * s, "step"), x1, "step")
        env.update({"R0": R0, "R1": R1})
        ctx.oblige("remainder-region-propagates", it.spec_bool("IN_INSET_TRI(%d, %d, R0, R1, 2 * s, eps)" % (fx, fy), env), None, "lemma")
        sc = (R0 / (2 * s), R1 / (2 * s))
        d = it.call(IJ2Q, sc, f)
        ctx.oblige("ij_to_quaternary-recovers-the-digit", zbool(it.ops.compare("==", d, q)), None, "lemma")
        ctx.cover("step hypotheses")
        return {"x0": x0, "x1": x1, "s": s, "eps": eps}
    return fn


RECOVER = Settings(float_mode="real", name_deep_terms=5)


def t_recover(repo, specs, h, invert_j, flip_ij):
    """Part B, composed over the h iterations (the induction, unrolled at the concrete level h with ghost assertions):
    for ARBITRARY shifted digits D[0..h-1] in 0..3, the anchor offset computed by the second loop of _s_to_anchor plus any
    centre displacement d allowed by part C is turned back into exactly D by the first loop of _ij_to_s.

    Ghost code (sidecar): the offset-accumulation loop records the flip state G[i] it had before digit i; the harness
    defines the tails tail[0] = d, tail[i+1] = c(D[i], G[i]) * 2^i + tail[i] and proves bottom-up that tail[i+1] lies in
    2^i * Tri(G[i]) with margin 1/10 (the step lemma, now with symbolic flips and digit); before iteration i of the
    recovery loop it is asserted that the flip state is G[i] and input - pivot is tail[i+1], after it that the digit
    found is D[i]."""
    from ..pyvc.interp_stmt import Frame as F_
    from fractions import Fraction

    def fn(ctx):
        it = Interp(ctx, repo, registry(), specs)
        ops = it.ops
        D = [ops.int_var("d%d" % k) for k in range(h)]
        for dk in D:
            ctx.assume(zand(dk >= 0, dk <= 3))
        inputs = {"d%d" % k: D[k] for k in range(h)}
        mod, f1, _ = repo.function(S2A)
        i1 = first_for(f1)
        fr = F_(mod, f1, S2A, {"s": 0, "resolution": h, "invert_j": invert_j, "flip_ij": flip_ij})
        it.exec_block(fr, f1.body[:i1])
        if len(fr.locals["digits"]) != h:
            ctx.oblige("digit-list-has-h-digits", False, None, "post")
            return inputs
        fr.locals["digits"] = list(D)
        G = {}

        def rec(itp, frame, i, phase):
            if phase == "pre":
                G[i] = tuple(frame.locals["flips"])
        loop2 = [st for st in f1.body[i1 + 1:] if isinstance(st, ast.For)]
        it.loop_hooks = {(S2A, fr.loops.index(loop2[0])): rec} if loop2 else {}
        anchor = None
        try:
            it.exec_block(fr, f1.body[i1 + 1:])
        except _Return as r:
            anchor = r.value
        if anchor is None or len(G) != h:
            ctx.oblige("offset-loop-shape", False, None, "post")
            return inputs
        a0, a1 = anchor.attrs["offset"]
        GF = anchor.attrs["flips"]
        d0, d1 = z3.Real("dx"), z3.Real("dy")
        inputs.update({"dx": d0, "dy": d1})
        eps = Fraction(1, 10)
        # part C: the centre displacement lies in the half-unit triangle of the final flip state, margin 1/10
        ctx.assume(it.eval_formula("IN_INSET_TRI(fx, fy, d0, d1, half, eps)", {"fx": GF[0], "fy": GF[1], "d0": d0, "d1": d1,
                                                                                  "half": Fraction(1, 2), "eps": eps}))
        # ghost tails and their regions, bottom-up
        tail = [(d0, d1)]
        for i in range(h):
            c = it.call(KJ2IJ, it.call(Q2KJ, D[i], G[i]))
            sc = 2 ** i
            t0 = ops.binop("+", ops.binop("*", c[0], sc, "ghost"), tail[i][0], "ghost")
            t1 = ops.binop("+", ops.binop("*", c[1], sc, "ghost"), tail[i][1], "ghost")
            t0, t1 = it.name_term(ops.lift_real(t0), "tail"), it.name_term(ops.lift_real(t1), "tail")
            tail.append((t0, t1))
            ctx.oblige("tail-%d-in-its-triangle(2^%d*Tri(G[%d]))" % (i + 1, i, i),
                       it.eval_formula("IN_INSET_TRI(fx, fy, t0, t1, S, eps)", {"fx": G[i][0], "fy": G[i][1], "t0": t0, "t1": t1, "S": sc, "eps": eps}),
                       None, "ghost-lemma")
        # the recovery loop of _ij_to_s
        mod2, f2, _ = repo.function(IJ2S)
        i2 = first_for(f2)
        u_in = ops.binop("+", a0, d0, "ghost")
        v_in = ops.binop("+", a1, d1, "ghost")
        fr2 = F_(mod2, f2, IJ2S, {"input_ij": (u_in, v_in), "invert_j": invert_j, "flip_ij": flip_ij, "resolution": h})

        def hook(itp, frame, i, phase):
            loc = frame.locals
            if phase == "pre":
                fl, pv = loc["flips"], loc["pivot"]
                ctx.oblige("recover-step-%d: flip state is the one the offset loop had" % i,
                           zand(zbool(ops.equal(fl[0], G[i][0])), zbool(ops.equal(fl[1], G[i][1]))), None, "ghost-assert")
                fl[0], fl[1] = G[i][0], G[i][1]
                r0 = ops.binop("-", u_in, pv[0], "ghost")
                r1 = ops.binop("-", v_in, pv[1], "ghost")
                ctx.oblige("recover-step-%d: input - pivot is the ghost tail" % i,
                           zand(zbool(ops.equal(r0, tail[i + 1][0])), zbool(ops.equal(r1, tail[i + 1][1]))), None, "ghost-assert")
            else:
                dg = loc["digits"]
                ctx.oblige("recover-step-%d: the digit found is D[%d]" % (i, i), zbool(ops.equal(dg[i], D[i])), None, "ghost-assert")
                dg[i] = D[i]
        it.loop_hooks = {(IJ2S, fr2.loops.index(f2.body[i2])): hook}
        it.exec_block(fr2, f2.body[:i2 + 1])
        ctx.cover("recovery hypotheses")
        return inputs
    return fn


S2A_W = "a5.core.hilbert.s_to_anchor"
IJ2S_W = "a5.core.hilbert.ij_to_s"
GPV = "a5.core.tiling.get_pentagon_vertices"
F2IJ = "a5.core.coordinate_transforms.face_to_ij"
ORIENTATIONS = ("uv", "vu", "uw", "wu", "vw", "wv")


def t_base(repo, specs, orientation, h):
    """Part C (base case, reals): for every inner flip state and pentagon number k, executing the real wrappers
    s_to_anchor / ij_to_s, get_pentagon_vertices, PentagonShape.get_center and face_to_ij on a symbolic anchor offset
    gives `offset + d` as the input of _ij_to_s, where d lies at least 1/10 inside the half-unit triangle of the inner
    flip state - the hypothesis of the step lemma at s = 1/2."""
    from ..pyvc.interp_expr import HarnessStub
    from ..pyvc.values import Obj

    def fn(ctx):
        mod = repo.module("a5.core.hilbert")
        for fx in (1, -1):
            for fy in (1, -1):
                for k in range(4):
                    it = Interp(ctx, repo, registry(), specs)
                    a0, a1 = z3.Real("a0"), z3.Real("a1")
                    ctx.assume(zand(a0 >= -(2 ** 29), a0 <= 2 ** 29, a1 >= -(2 ** 29), a1 <= 2 ** 29))
                    captured = {}

                    def fake_s_to_anchor(s, resolution, invert_j, flip_ij, _k=k, _fx=fx, _fy=fy, _it=it):
                        cls = _it.module_global(mod, "Anchor")
                        return _it.construct(cls, [_k, (a0, a1), (_fx, _fy)], {}, None, None)

                    def fake_ij_to_s(ij, invert_j, flip_ij, resolution):
                        captured["ij"] = ij
                        return 0
                    it.extra_globals["_s_to_anchor"] = HarnessStub(fake_s_to_anchor)
                    it.extra_globals["_ij_to_s"] = HarnessStub(fake_ij_to_s)
                    # orientations with `reverse` only re-index S, which the stub ignores
                    anchor = it.call(S2A_W, 0, h, orientation)
                    pent = it.call(GPV, h, 0, anchor)
                    c = it.call_value(it.getattr(pent, "get_center"), [], {}, None, None)
                    sc = 2 ** h
                    ij = it.call(F2IJ, (it.ops.binop("*", c[0], sc, "base"), it.ops.binop("*", c[1], sc, "base")))
                    it.call(IJ2S_W, ij, h, orientation)
                    u, v = captured["ij"]
                    d0 = it.ops.binop("-", u, a0, "base")
                    d1 = it.ops.binop("-", v, a1, "base")
                    env = {"d0": d0, "d1": d1}
                    tag = "flips=(%d,%d),k=%d" % (fx, fy, k)
                    # the rounded BASIS_INVERSE*BASIS is not exactly the identity: tolerance 1e-6 on |offset| <= 2^29
                    ctx.oblige("centre-is-offset-plus-constant-inside-its-half-unit-triangle[%s]" % tag,
                               it.spec_bool("IN_INSET_TRI(%d, %d, d0, d1, 1 / 2, 1 / 10 + 1 / 1000000)" % (fx, fy), env), None, "lemma")
        return {}
    return fn


def t_wrappers(repo, specs, orientation, h):
    """The orientation wrappers around the inner functions: s_to_anchor hands _s_to_anchor the index (mirrored to
    4^h - 1 - S for the reversed orientations), the unchanged level h and the flags of its class; ij_to_s mirrors the
    inner result back - so the wrappers compose to the identity around parts A-C."""
    from ..pyvc.interp_expr import HarnessStub
    cls = {"uv": (False, False, False), "vu": (True, False, False), "uw": (False, False, True), "wu": (True, False, True),
           "vw": (True, True, False), "wv": (False, True, False)}[orientation]      # (reverse, invert_j, flip_ij) as the statement's six curves

    def fn(ctx):
        it = Interp(ctx, repo, registry(), specs)
        ops = it.ops
        mod = repo.module("a5.core.hilbert")
        S = ops.int_var("S")
        ctx.assume(zand(S >= 0, S < (1 << (2 * h))))
        seen = {}

        def fake_inner(s, resolution, invert_j, flip_ij):
            seen["args"] = (s, resolution, invert_j, flip_ij)
            return it.construct(it.module_global(mod, "Anchor"), [0, (0, 0), (1, 1)], {}, None, None)
        it.extra_globals["_s_to_anchor"] = HarnessStub(fake_inner)
        it.call(S2A_W, S, h, orientation)
        s_in, res_in, inv_in, flip_in = seen["args"]
        n = (1 << (2 * h))
        want = ops.binop("-", ops.binop("-", n, S, "w"), 1, "w") if cls[0] else S
        ctx.oblige("s_to_anchor-passes-the-level-unchanged", zbool(ops.equal(res_in, h)), None, "post")
        # the inner function reads its index only through the base-4 digit list it extracts first (checked on the
        # source), so what the wrapper owes it is an index with the digit list of the (mirrored) index - stated over
        # the real extraction statements of _s_to_anchor, not over the integer itself
        mod1, f1, _ = repo.function(S2A)
        i1 = first_for(f1)
        pname = f1.args.args[0].arg
        later = [n for st in f1.body[i1:] for n in ast.walk(st) if isinstance(n, ast.Name) and n.id == pname]
        if later:
            raise ShapeMismatch("CONTRACT-SHAPE-MISMATCH %s reads its index again after extracting the digits (line %d): the digit-level wrapper contract does not apply" % (S2A, later[0].lineno))
        ctx.oblige("_s_to_anchor-reads-its-index-only-through-the-extracted-digits", True, None, "frame")

        def digits_of(val):
            frd = Frame(mod1, f1, S2A, {pname: val, f1.args.args[1].arg: h, f1.args.args[2].arg: cls[1], f1.args.args[3].arg: cls[2]})
            it.exec_block(frd, f1.body[:i1])
            return list(frd.locals["digits"])
        d_in, d_want = digits_of(s_in), digits_of(want)
        same = len(d_in) == len(d_want) == h
        ctx.oblige("s_to_anchor-passes-an-index-with-the-digits-of-the-(mirrored)-index",
                   zand(*[zbool(ops.equal(a, b)) for a, b in zip(d_in, d_want)]) if same else False, None, "post")
        ctx.oblige("s_to_anchor-passes-the-flags-of-its-class", zand(zbool(ops.equal(inv_in, cls[1])), zbool(ops.equal(flip_in, cls[2]))), None, "post")
        inner = ops.int_var("s_inner")
        ctx.assume(zand(inner >= 0, inner < n))
        got = {}

        def fake_ij(ij, invert_j, flip_ij, resolution):
            got["args"] = (invert_j, flip_ij, resolution)
            return inner
        it.extra_globals["_ij_to_s"] = HarnessStub(fake_ij)
        out = it.call(IJ2S_W, (0, 0), h, orientation)
        want2 = ops.binop("-", ops.binop("-", n, inner, "w"), 1, "w") if cls[0] else inner
        ctx.oblige("ij_to_s-passes-level-and-flags", zand(zbool(ops.equal(got["args"][2], h)), zbool(ops.equal(got["args"][0], cls[1])),
                                                          zbool(ops.equal(got["args"][1], cls[2]))), None, "post")
        ctx.oblige("ij_to_s-mirrors-the-inner-index-back", zbool(ops.equal(out, want2)), None, "post")
        # the two mirrors cancel: parts A-C give inner == the in-range index with the digits handed to _s_to_anchor,
        # i.e. the (mirrored) index; then out == S
        ctx.oblige("mirrors-cancel", z3.Implies(zbool(ops.equal(inner, want)), zbool(ops.equal(out, S))), None, "post")
        return {"S": S}
    return fn


def tasks(tier):
    repo = Repo(REPO)
    specs = specs_module()
    out = []
    for h in range(1, 29):
        for cname, (inv, flip) in CLASSES.items():
            out.append(PTask("C18/A/digits[h=%d,%s]" % (h, cname), t_digits(repo, specs, h, inv, flip), [S2A, IJ2S, "a5.core.hilbert._shift_digits"],
                             deciding=True, replay_kind="hilbert", timeout_ms=300000, settings=DIGITS))
    rec_levels = range(1, 29) if tier == "thorough" else (1, 2, 3, 4, 5, 6, 7, 8, 9, 10, 14, 18, 22, 26, 28)
    for h in rec_levels:
        for cname, (inv, flip) in CLASSES.items():
            out.append(PTask("C18/B/recover[h=%d,%s]" % (h, cname), t_recover(repo, specs, h, inv, flip), [S2A, IJ2S, IJ2Q, Q2KJ, KJ2IJ, Q2F],
                             deciding=True, replay_kind="hilbert", timeout_ms=300000, settings=RECOVER))
    for o in ORIENTATIONS:
        for h in range(1, 29):
            out.append(PTask("C18/W/wrappers[%s,h=%d]" % (o, h), t_wrappers(repo, specs, o, h), [S2A_W, IJ2S_W], deciding=True, replay_kind="hilbert"))
    for o in ORIENTATIONS:
        for h in range(1, 29):
            out.append(PTask("C18/C/base[%s,h=%d]" % (o, h), t_base(repo, specs, o, h), [S2A_W, IJ2S_W, GPV, F2IJ, "a5.geometry.pentagon.PentagonShape.get_center"],
                             deciding=True, replay_kind="hilbert", settings=REAL))
    for fx in (1, -1):
        for fy in (1, -1):
            for q in range(4):
                out.append(PTask("C18/B/step[flips=(%d,%d),digit=%d]" % (fx, fy, q), t_step(repo, specs, fx, fy, q), [IJ2Q, Q2KJ, KJ2IJ, Q2F],
                                 deciding=True, replay_kind="hilbert", settings=REAL))
    return out


ASSUMPTIONS = BASE_TRUSTED + [
    "A6: binary64 arithmetic in the lattice functions (parts B, C) is treated as exact real arithmetic: float literals and table entries enter as their exact rational values; pivots are integers < 2^53 and scalings are by powers of two; backed by the proved margin 1/10 >> accumulated rounding",
    "part A: Python ints are 80-bit bit-vectors with no-wrap obligations (most discharged by a sound interval pre-analysis); levels 1..28 and the three (invert_j, flip_ij) classes are the whole domain, every loop is unrolled at its concrete length",
    "part B: the inductive step is proved for all scales of the domain, and its composition over the h iterations (ghost tails, region claims bottom-up, per-iteration assertions in the recovery loop) is proved for arbitrary digit strings per level and orientation class - every level 1..28 in the thorough tier, levels 1..10, 14, 18, 22, 26, 28 in the quick tier; part C is used as the base hypothesis (centre displacement in the half-unit triangle of the final flip state)",
    "the bounded native round trip (levels 1..5 exhaustive, directed / random to level 28) is kept as an additional labelled stand-in and is not counted",
    "not claimed: the clause that the first level-k digits identify the level-k ancestor cell (the lattice triangles of the pinned code do not nest that way)",
]


def main(argv=None):
    import time
    from ..framework import native_replay, write_replay_file
    a = parse_args(argv if argv is not None else sys.argv[1:])
    cmd = "python3-vt -m a5verif check C18 --tier %s" % a.tier

    def extra(res, coverage):
        t0 = time.time()
        rp = native_replay("C18", "hilbert", {"model": {}})
        coverage["bounded"] = {"what": "index -> anchor -> pentagon -> centre -> index on the real code: all indices of levels 1..5 for the six orientations, plus digit-pattern-directed and random indices at every level 1..28, in one process (a5verif/replay_more.py r_hilbert)",
                               "result": rp, "seconds": round(time.time() - t0, 2), "counted_as_proved": False}
        if rp.get("confirmed"):
            path = write_replay_file("C18", "C18/round-trip(bounded)", {"property": "C18", "obligation": "C18/round-trip(bounded stand-in for the induction over digits)", "native": rp})
            res.violations.append(("C18/round-trip(bounded stand-in)", path, ""))
    return run_pyvc_check("C18", a.tier, a.seed, tasks(a.tier), ASSUMPTIONS, cmd, extra_steps=[extra])


if __name__ == "__main__":
    sys.exit(main())

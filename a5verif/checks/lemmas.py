"""Bit-level lemmas about sibling groups, strides, coverage and ordering that the loop-level proofs of
compact (C08, C09) use as hypotheses.  Each task: level r of the cell concrete (0..29), everything else symbolic."""
import z3

from ..pyvc.ctx import PyRaise
from ..pyvc.interp import Interp
from ..pyvc.values import zand, zor, znot, zbool
from ..contracts.registry import registry
from . import c05, c06

FIRST = "a5.core.serialization.is_first_child"
STRIDEF = "a5.core.serialization.get_stride"
PARENT = c06.PARENT

CARGS = "c['origin'].id, c['origin'].first_quintant, c['segment'], c['S'], c['resolution']"
XARGS = "x['origin'].id, x['origin'].first_quintant, x['segment'], x['S'], x['resolution']"


def mk(ctx, repo, specs):
    return c06.mk(ctx, repo, specs)


def sym_valid(it, ctx, tag, r=None, rmin=-1, rmax=29):
    cell, inputs = c05.sym_cell(it, ctx, tag, r, rmax=rmax)
    if r is None:
        ctx.assume(cell["resolution"] >= rmin)
    ctx.assume(it.spec_bool("VALID_CELL(cell)", {"cell": cell}))
    return cell, inputs


def t_first_and_stride(repo, specs, r):
    """Contracts of is_first_child and get_stride against their specs."""
    def fn(ctx):
        it = mk(ctx, repo, specs)
        c, inputs = sym_valid(it, ctx, "c", r)
        cid = it.eval_spec("ENC_CELL(c)", None, {"c": c})
        want = it.spec_bool("FIRSTSPEC(%s)" % CARGS, {"c": c})
        got = it.call(FIRST, cid, r)
        ctx.oblige("is_first_child(id, res)==FIRSTSPEC", zbool(it.ops.truth(got)) == want, None, "post")
        got2 = it.call(FIRST, cid)
        ctx.oblige("is_first_child(id)==FIRSTSPEC", zbool(it.ops.truth(got2)) == want, None, "post")
        st = it.call(STRIDEF, r)
        ctx.oblige("get_stride(res)==STRIDE", it.spec_bool("st == STRIDE(r)", {"st": st, "r": r}), None, "post")
        return inputs
    return fn


def sibling_cells(it, ctx, c, r):
    """The NSIB(r) cells that share c's parent, in id order, for a first child c."""
    from ..pyvc.values import Choice
    ops = it.ops
    origins = it.module_global(it.repo.module("a5.core.origin"), "origins")
    out = []
    if r == 0:
        for j in range(12):
            out.append({"origin": origins[j], "segment": 0, "S": 0, "resolution": 0})
    elif r == 1:
        fq = it.getattr(c["origin"], "first_quintant")
        for j in range(5):
            g = ops.binop("%", ops.binop("+", fq, j, "lemma"), 5, "lemma")
            out.append({"origin": c["origin"], "segment": g, "S": 0, "resolution": 1})
    else:
        for j in range(4):
            out.append({"origin": c["origin"], "segment": c["segment"], "S": ops.binop("+", c["S"], j, "lemma"), "resolution": r})
    return out


def parent_cell(it, c, r):
    ops = it.ops
    if r >= 2:
        return {"origin": c["origin"], "segment": c["segment"], "S": ops.binop(">>", c["S"], 2, "lemma") if r >= 3 else 0, "resolution": r - 1}
    if r == 1:
        return {"origin": c["origin"], "segment": 0, "S": 0, "resolution": 0}
    origins = it.module_global(it.repo.module("a5.core.origin"), "origins")
    return {"origin": origins[0], "segment": 0, "S": 0, "resolution": -1}


def t_merge(repo, specs, r):
    """siblings: c + j*STRIDE(r) is the id of the j-th sibling (valid, level r, same parent);
    merge: the parent covers x iff one of the siblings does; parent id is what cell_to_parent returns."""
    def fn(ctx):
        it = mk(ctx, repo, specs)
        ops = it.ops
        c, inputs = sym_valid(it, ctx, "c", r)
        x, in2 = sym_valid(it, ctx, "x", None, rmin=r)
        inputs.update(in2)
        ctx.assume(it.spec_bool("FIRSTSPEC(%s)" % CARGS, {"c": c}))
        cid = it.eval_spec("ENC_CELL(c)", None, {"c": c})
        sibs = sibling_cells(it, ctx, c, r)
        par = parent_cell(it, c, r)
        stride = it.eval_spec("STRIDE(r)", None, {"r": r})
        covs = []
        for j, sc in enumerate(sibs):
            ctx.oblige("sibling-%d-is-a-valid-cell" % j, it.spec_bool("VALID_CELL(s)", {"s": sc}), None, "lemma")
            sid = it.eval_spec("ENC_CELL(s)", None, {"s": sc})
            ctx.oblige("sibling-%d-id==c+%d*STRIDE" % (j, j), zbool(ops.compare("==", sid, ops.binop("+", cid, ops.binop("*", j, stride, "lemma"), "lemma"))), None, "lemma")
            covs.append(it.spec_bool("IS_ANCESTOR(%s, %s)" % (CARGS.replace("c[", "s["), XARGS), {"s": sc, "x": x}))
        pcov = it.spec_bool("IS_ANCESTOR(%s, %s)" % (CARGS.replace("c[", "p["), XARGS), {"p": par, "x": x})
        ctx.oblige("merge: parent covers x <=> some sibling covers x", pcov == zor(*covs), None, "lemma")
        # the parent id is what the real cell_to_parent(c) returns
        pid = it.call(PARENT, cid)
        ctx.oblige("cell_to_parent(c)==id-of-parent-cell", zbool(ops.compare("==", pid, it.eval_spec("ENC_CELL(p)", None, {"p": par}))), None, "post")
        ctx.cover("merge lemma hypotheses")
        return inputs
    return fn


def t_ancestor_is_parent(repo, specs, r):
    """IS_ANCESTOR(c, x) <=> PARENT_ID(x, res c) == id(c), for valid c (level r) and x (level >= r); the real
    cell_to_parent equals PARENT_ID by the C06 tasks."""
    def fn(ctx):
        it = mk(ctx, repo, specs)
        ops = it.ops
        c, inputs = sym_valid(it, ctx, "c", r)
        x, in2 = sym_valid(it, ctx, "x", None, rmin=r)
        inputs.update(in2)
        cid = it.eval_spec("ENC_CELL(c)", None, {"c": c})
        xid = it.eval_spec("ENC_CELL(c)", None, {"c": x})
        # PARENT_ID is tied to the real cell_to_parent by the C06 tasks parent[res=..]
        p = it.eval_spec("PARENT_ID(%s, r)" % XARGS, None, {"x": x, "r": r})
        anc = it.spec_bool("IS_ANCESTOR(%s, %s)" % (CARGS, XARGS), {"c": c, "x": x})
        ctx.oblige("IS_ANCESTOR(c,x) <=> PARENT_ID(x, res c)==id(c)", anc == zbool(ops.compare("==", p, cid)), None, "lemma")
        return inputs
    return fn


def first_child_cell(it, p, r):
    """The first child (level r+1) of the level-r cell p, as a cell."""
    ops = it.ops
    origins = it.module_global(it.repo.module("a5.core.origin"), "origins")
    if r == -1:
        return {"origin": origins[0], "segment": 0, "S": 0, "resolution": 0}
    if r == 0:
        return {"origin": p["origin"], "segment": it.getattr(p["origin"], "first_quintant"), "S": 0, "resolution": 1}
    if r == 1:
        return {"origin": p["origin"], "segment": p["segment"], "S": 0, "resolution": 2}
    return {"origin": p["origin"], "segment": p["segment"], "S": ops.binop("*", p["S"], 4, "lemma"), "resolution": r + 1}


def t_has_child(repo, specs, r):
    """Every valid cell p of level r < 29 has a first child: a valid cell of level r+1 that satisfies FIRSTSPEC and
    whose level-r ancestor is p (hypothesis HC of lean/A10.lean, and the link from a complete set of children to the
    sibling group first-child + j*stride of lemma/siblings-and-merge)."""
    def fn(ctx):
        it = mk(ctx, repo, specs)
        p, inputs = sym_valid(it, ctx, "p", r)
        fc = first_child_cell(it, p, r)
        FARGS = CARGS.replace("c[", "f[")
        env = {"f": fc, "p": p, "r": r}
        ctx.oblige("first-child-is-a-valid-cell", it.spec_bool("VALID_CELL(f)", env), None, "lemma")
        ctx.oblige("first-child-satisfies-FIRSTSPEC", it.spec_bool("FIRSTSPEC(%s)" % FARGS, env), None, "lemma")
        ctx.oblige("PARENT_ID(first-child, r)==id(p)", it.spec_bool("PARENT_ID(%s, r) == ENC_CELL(p)" % FARGS, env), None, "lemma")
        ctx.cover("has-child hypotheses")
        return inputs
    return fn


# ------------------------------------------------------------------------------------------------ ordering (C09)
COMPACT = "a5.core.compact.compact"


def sort_key_function(repo):
    """The key the code sorts its working list by: qualified name of the `key=` function of the sorted(...) call in
    compact, or None for plain numeric order.  Re-read from the source on every run."""
    import ast
    mod, fnode, _ = repo.function(COMPACT)
    for n in ast.walk(fnode):
        if isinstance(n, ast.Call) and isinstance(n.func, ast.Name) and n.func.id == "sorted":
            for kw in n.keywords:
                if kw.arg == "key":
                    if isinstance(kw.value, ast.Name) and kw.value.id in mod.functions:
                        return mod.name + "." + kw.value.id
                    return "<unsupported key expression>"
            return None
    return "<no sorted() call>"


def key_of(it, repo, idv):
    kf = sort_key_function(repo)
    if kf is None:
        return idv
    return it.call(kf, idv)


def rel(it, a, b):
    A = CARGS.replace("c[", "a[")
    Bq = CARGS.replace("c[", "b[")
    return it.eval_formula("IS_ANCESTOR(%s, %s) or IS_ANCESTOR(%s, %s)" % (A, Bq, Bq, A), {"a": a, "b": b})


def mk_modular(ctx, repo, specs):
    """Interpreter that uses get_resolution through its contract (argument levels are symbolic here)."""
    it = c06.mk(ctx, repo, specs)
    it.by_contract = set(it.by_contract) | {"a5.core.serialization.get_resolution"}
    return it


def t_resof(repo, specs, r):
    """Specification lemma tying the functional RESOF to the layout: RESOF(ENC(cell)) == cell.resolution."""
    def fn(ctx):
        it = mk(ctx, repo, specs)
        c, inputs = sym_valid(it, ctx, "c", r)
        cid = it.eval_spec("ENC_CELL(c)", None, {"c": c})
        ctx.oblige("RESOF(ENC(cell))==cell.resolution", zbool(it.ops.compare("==", it.eval_logical("RESOF(x)", {"x": cid}), r)), None, "lemma")
        return inputs
    return fn


def t_order(repo, specs, r):
    """order / transfer / adjacency for the sibling group of a first child c of level r and an arbitrary valid cell y
    that is unrelated to every sibling, under the key the code sorts by."""
    def fn(ctx):
        it = mk_modular(ctx, repo, specs)
        ops = it.ops
        c, inputs = sym_valid(it, ctx, "c", r)
        y, in2 = sym_valid(it, ctx, "y", None, rmin=-1)
        inputs.update(in2)
        ctx.assume(it.spec_bool("FIRSTSPEC(%s)" % CARGS, {"c": c}))
        sibs = sibling_cells(it, ctx, c, r)
        par = parent_cell(it, c, r)
        if r == 0:
            # the group is all twelve faces: every valid cell other than the world cell lies under one of them, so
            # no cell is unrelated to the whole group and a complete group of faces is the entire antichain
            ctx.oblige("level-0: every valid cell is related to one of the twelve faces", zor(*[rel(it, sc, y) for sc in sibs]), None, "lemma")
            skeys = [key_of(it, repo, it.eval_spec("ENC_CELL(c)", None, {"c": sc})) for sc in sibs]
            for j in range(len(sibs) - 1):
                ctx.oblige("siblings-in-key-order-%d" % j, zbool(ops.compare("<", skeys[j], skeys[j + 1])), None, "lemma")
            return inputs
        for sc in sibs:
            ctx.assume(znot(rel(it, sc, y)))
        yid = it.eval_logical("ENC_CELL(c)", {"c": y})
        ky = key_of(it, repo, yid)
        skeys = [key_of(it, repo, it.eval_spec("ENC_CELL(c)", None, {"c": sc})) for sc in sibs]
        ctx.oblige("transfer: unrelated to every sibling => unrelated to the parent", znot(rel(it, par, y)), None, "lemma")
        for j in range(len(sibs) - 1):
            ctx.oblige("siblings-in-key-order-%d" % j, zbool(ops.compare("<", skeys[j], skeys[j + 1])), None, "lemma")
            ctx.oblige("adjacency: no unrelated cell sorts between siblings %d and %d" % (j, j + 1),
                       znot(zand(zbool(ops.compare("<", skeys[j], ky)), zbool(ops.compare("<", ky, skeys[j + 1])))), None, "lemma")
        if r >= 1:
            pk = key_of(it, repo, it.eval_spec("ENC_CELL(c)", None, {"c": par}))
            ctx.oblige("order: below the group => below the parent", z3.Implies(zbool(ops.compare("<", ky, skeys[0])), zbool(ops.compare("<", ky, pk))), None, "lemma")
            ctx.oblige("order: above the group => above the parent", z3.Implies(zbool(ops.compare(">", ky, skeys[-1])), zbool(ops.compare(">", ky, pk))), None, "lemma")
        ctx.cover("order lemma hypotheses")
        return inputs
    return fn


def t_key_injective(repo, specs, r):
    """Distinct valid cells have distinct sort keys (so a strictly key-increasing list has no duplicates and
    sorted(set(.), key) is well defined)."""
    def fn(ctx):
        it = mk_modular(ctx, repo, specs)
        ops = it.ops
        a, inputs = sym_valid(it, ctx, "a", r)
        b, in2 = sym_valid(it, ctx, "b", None, rmin=-1)
        inputs.update(in2)
        ctx.assume(znot(it.eval_formula("CELLEQ(a, b)", {"a": a, "b": b})))
        ka = key_of(it, repo, it.eval_spec("ENC_CELL(c)", None, {"c": a}))
        kb = key_of(it, repo, it.eval_logical("ENC_CELL(c)", {"c": b}))
        ctx.oblige("key-injective: distinct cells have distinct sort keys", znot(zbool(ops.compare("==", ka, kb))), None, "lemma")
        return inputs
    return fn

"""C10 - uncompact expands each cell to exactly its descendants at the target level.

Loop level (this file): `uncompact` is verified over the abstraction - mathematical ints, the id-level functions
RES / NCHILD / CHILD uninterpreted, callees by contract.  Bit level: the callee contracts and the facts about the
uninterpreted symbols used here are the C05/C06/C20 obligations, which this check re-discharges (supporting).
"""
import sys
import z3

from .common import PTask, run_pyvc_check, specs_module, parse_args, BASE_TRUSTED
from .. import REPO
from ..pyvc.src import Repo
from ..pyvc.ctx import Settings, PyRaise
from ..pyvc.interp import Interp
from ..pyvc.interp_expr import UF
from ..pyvc.values import zand, zor, znot, zbool, SymList
from ..contracts.registry import registry_abs
from ..contracts import compact_contracts as cc
from . import c05, c06, c20

I = z3.IntSort()
B = z3.BoolSort()


def abs_symbols():
    return {
        "RES": UF("RES", z3.Function("RES", I, I)),
        "VALIDID": UF("VALIDID", z3.Function("VALIDID", I, B)),
        "NCHILD": UF("NCHILD", z3.Function("NCHILD", I, I, I)),
        "CHILD": UF("CHILD", z3.Function("CHILD", I, I, I, I)),
        "PS": UF("PS", z3.Function("PS", I, I)),
    }


def abs_settings():
    return Settings(theory="int")


def raise_sites(repo):
    """file:line of the `raise` statements written in uncompact's own body (re-read from the source)."""
    import ast
    mod, fnode, _ = repo.function(cc.UNCOMPACT)
    rel = mod.path.replace(repo.root + "/", "")
    return {"%s:%d" % (rel, n.lineno) for n in ast.walk(fnode) if isinstance(n, ast.Raise)}


def t_uncompact(repo, specs):
    def fn(ctx):
        syms = abs_symbols()
        it = Interp(ctx, repo, registry_abs(), specs, by_contract=[cc.GRES, cc.NUMCHILD, cc.CHILDREN], extra_globals=dict(syms))
        RES, VALIDID, NCHILD, CHILD, PS = (syms[k].decl for k in ("RES", "VALIDID", "NCHILD", "CHILD", "PS"))
        arr0 = z3.Array("cells", I, I)
        n0 = z3.Int("ncells")
        t = z3.Int("t")
        cells = SymList(arr0, n0)
        k, a, b = z3.Int("k"), z3.Int("a"), z3.Int("b")
        ctx.assume(zand(n0 >= 0, t >= -1, t <= 29))
        # input domain: every element is a valid cell id
        ctx.assume(z3.ForAll([k], z3.Implies(zand(k >= 0, k < n0), VALIDID(z3.Select(arr0, k))), patterns=[z3.Select(arr0, k)]))
        # facts about the child-count function that the loop level uses (each is a C20 bit-level obligation)
        ctx.assume(z3.ForAll([a, b], z3.Implies(zand(a >= -1, b >= -1, a <= 30, b <= 30),
                                                zand(z3.Implies(b < a, NCHILD(a, b) == 0), z3.Implies(b == a, NCHILD(a, b) == 1),
                                                     z3.Implies(b > a, NCHILD(a, b) > 1))), patterns=[NCHILD(a, b)]))
        # ghost prefix sums of the block sizes (definition)
        ctx.assume(PS(0) == 0)
        ctx.assume(z3.ForAll([k], z3.Implies(zand(k >= 0, k < n0), PS(k + 1) == PS(k) + NCHILD(RES(z3.Select(arr0, k)), t)),
                             patterns=[PS(k + 1)]))
        inputs = {"ncells": n0, "t": t}
        finer = z3.Exists([k], zand(k >= 0, k < n0, RES(z3.Select(arr0, k)) > t))
        try:
            res = it.call(cc.UNCOMPACT, cells, t)
        except PyRaise as e:
            ctx.oblige("raises-only-ValueError-and-only-when-some-cell-is-finer-than-target(%s)" % e.exc,
                       zand(e.exc == "ValueError", finer), e.where, "raises")
            ctx.oblige("argument-not-modified(on raise)", zand(cells.arr == arr0, cells.length == n0), None, "frame")
            if e.where in raise_sites(repo):
                ctx.cover("uncompact raises for a finer cell")
            return inputs
        ctx.oblige("returns-only-when-no-cell-is-finer-than-target", znot(finer), None, "post")
        env = dict(syms)
        env.update({"result": res, "cells": SymList(arr0, n0), "target_resolution": t, "ncells": n0})
        ctx.oblige("len(result)==sum-of-get_num_children", it.eval_formula("len(result) == PS(ncells)", env), None, "post")
        ctx.oblige("blocks: result[PS(k)+j]==descendant-j-of-cells[k] (the cell itself at its own level)", it.eval_formula(
            "all(all(result[PS(k) + j] == %s for j in range(0, %s)) for k in range(0, ncells))" % (cc.EXPECT, cc.NC), env), None, "post")
        ctx.oblige("argument-not-modified", zand(cells.arr == arr0, cells.length == n0), None, "frame")
        ctx.cover("uncompact returns")
        return inputs
    return fn


def t_block_elements(repo, specs):
    """Every element of block k has resolution t and maps back to cells[k]: instantiation of the C06 theorems
    (child_k-has-resolution-b, soundness) at a symbolic element - stated here so that the composition is checked by
    the solver and not on paper."""
    def fn(ctx):
        syms = abs_symbols()
        RES, VALIDID, NCHILD, CHILD, PS = (syms[k].decl for k in ("RES", "VALIDID", "NCHILD", "CHILD", "PS"))
        PAR = z3.Function("PAR", I, I, I)
        x, t, j, e = z3.Ints("x t j e")
        # C06 (bit level): for a valid x with RES(x) < t <= 29 and 0 <= j < NCHILD(RES x, t)
        c06_thm = zand(RES(CHILD(x, t, j)) == t, PAR(CHILD(x, t, j), RES(x)) == x)
        ctx.assume(zand(VALIDID(x), RES(x) <= t, t <= 29, j >= 0, j < NCHILD(RES(x), t)))
        ctx.assume(z3.Implies(RES(x) < t, c06_thm))
        ctx.assume(PAR(x, RES(x)) == x)            # C06: parent at own level is the cell
        ctx.assume(e == z3.If(RES(x) == t, x, CHILD(x, t, j)))
        ctx.oblige("element-has-target-resolution-and-maps-back-to-its-source", zand(RES(e) == t, PAR(e, RES(x)) == x), None, "lemma")
        return {}
    return fn


def tasks(tier):
    repo = Repo(REPO)
    specs = specs_module()
    st = abs_settings()
    out = [
        PTask("C10/uncompact", t_uncompact(repo, specs), [cc.UNCOMPACT], deciding=True, replay_kind="uncompact", settings=st,
              timeout_ms=120000),
        PTask("C10/block-elements", t_block_elements(repo, specs), [], deciding=True, replay_kind="uncompact", settings=st),
    ]
    # supporting: the callee contracts and the facts about the uninterpreted symbols, at bit level
    out.append(PTask("C10/callee/get_num_children", c20.t_num_children(repo, specs), [cc.NUMCHILD], replay_kind="uncompact", timeout_ms=120000))
    out.append(PTask("C10/callee/nchild-facts", c20.t_nchild_facts(repo, specs), [cc.NUMCHILD], replay_kind="uncompact", timeout_ms=120000))
    for r in range(-1, 30):
        out.append(PTask("C10/callee/get_resolution[r=%d]" % r, c05.t_get_resolution(repo, specs, r), [cc.GRES], replay_kind="uncompact"))
        out.append(PTask("C10/callee/serialize[r=%d]" % r, c05.t_serialize(repo, specs, r), [c05.SER], replay_kind="uncompact"))
        out.append(PTask("C10/callee/children-raises[res=%d]" % r, c06.t_children_raises(repo, specs, r), [cc.CHILDREN], replay_kind="uncompact"))
    for rc, b in c06.pairs(tier):
        if tier == "thorough" or b - rc <= 2 or (rc <= 0 and b - rc <= 3):
            out.append(PTask("C10/callee/children[res=%d,to=%d]" % (rc, b), c06.t_children(repo, specs, rc, b), c06.FUNCS, replay_kind="uncompact"))
            if b > rc:
                out.append(PTask("C10/callee/child-parent[res=%d,to=%d]" % (rc, b), c06.t_child_parent(repo, specs, rc, b), c06.FUNCS,
                                 replay_kind="uncompact"))
    return out


ASSUMPTIONS = BASE_TRUSTED + [
    "loop level: Python ints are mathematical integers (no fixed width), RES/NCHILD/CHILD/VALIDID uninterpreted; PS is the ghost prefix sum of block sizes (definitional axioms)",
    "callee contracts assumed at loop level and discharged at bit level: get_resolution (C05 tasks get_resolution[r=..]), get_num_children (C20 task get_num_children), cell_to_children (C06 tasks children[..], child-parent[..])",
    "facts about NCHILD used: 0 below, 1 at, >1 above the own level for levels -1..30 (C20 get_num_children + NCHILD spec)",
    "the input list contains valid cell ids only (VALIDID); lists are modelled as (array, length) pairs",
    "frame: `cells` is compared with its entry value at every exit; aliasing through other references is covered by C17/F1",
]


def main(argv=None):
    a = parse_args(argv if argv is not None else sys.argv[1:])
    cmd = "python3-vt -m a5verif check C10 --tier %s" % a.tier
    return run_pyvc_check("C10", a.tier, a.seed, tasks(a.tier), ASSUMPTIONS, cmd)


if __name__ == "__main__":
    sys.exit(main())

"""C06 - parent/children form a consistent tree over ids (cell_to_children, cell_to_parent)."""
import sys
import z3

from .common import PTask, run_pyvc_check, specs_module, parse_args, BASE_TRUSTED
from .. import REPO
from ..pyvc.src import Repo
from ..pyvc.ctx import Settings, PyRaise
from ..pyvc.interp import Interp
from ..pyvc.values import zand, zor, znot, zbool, SymList
from ..contracts.registry import registry
from . import c05

CHILDREN = "a5.core.serialization.cell_to_children"
PARENT = "a5.core.serialization.cell_to_parent"
RES0 = "a5.core.serialization.get_res0_cells"
FUNCS = [CHILDREN, PARENT, c05.SER, c05.DES, c05.GRES]
MAXB = 30


def mk(ctx, repo, specs):
    it = Interp(ctx, repo, registry(), specs, by_contract=[c05.SER])
    origins = it.module_global(repo.module("a5.core.origin"), "origins")
    it.extra_globals["FQ_OF"] = [o.attrs["first_quintant"] for o in origins]
    return it


def valid_cell(it, ctx, tag, r):
    cell, inputs = c05.sym_cell(it, ctx, tag, r)
    ctx.assume(it.spec_bool("VALID_CELL(cell)", {"cell": cell}))
    return cell, inputs


ARGS = "cell['origin'].id, cell['origin'].first_quintant, cell['segment'], cell['S'], cell['resolution']"


def t_children(repo, specs, rc, b):
    """cell_to_children(c, b) for b >= rc: length and every element, in list order."""
    def fn(ctx):
        it = mk(ctx, repo, specs)
        cell, inputs = valid_cell(it, ctx, "c", rc)
        idx = it.eval_spec("ENC_CELL(cell)", None, {"cell": cell})
        res = it.call(CHILDREN, idx, b)
        env = {"cell": cell, "result": res, "b": b, "idx": idx, "FQ_OF": it.extra_globals["FQ_OF"]}
        ctx.oblige("len(children)==NCHILD", it.spec_bool("len(result) == NCHILD(cell['resolution'], b)", env), None, "post")
        if b == rc:
            ctx.oblige("children-at-own-level==[cell]", it.spec_bool("result[0] == idx", env), None, "post")
        else:
            ctx.oblige("children[k]==CHILDK(c,b,k)", it.spec_bool(
                "all(result[k] == CHILDK(%s, b, k, FQ_OF) for k in range(0, len(result)))" % ARGS, env), None, "post")
        return inputs
    return fn


def t_children_default(repo, specs, rc):
    """child_resolution omitted (None): one level down."""
    def fn(ctx):
        it = mk(ctx, repo, specs)
        cell, inputs = valid_cell(it, ctx, "c", rc)
        idx = it.eval_spec("ENC_CELL(cell)", None, {"cell": cell})
        res = it.call(CHILDREN, idx)
        env = {"cell": cell, "result": res, "b": rc + 1, "FQ_OF": it.extra_globals["FQ_OF"]}
        ctx.oblige("default:len(children)==NCHILD(r,r+1)", it.spec_bool("len(result) == NCHILD(cell['resolution'], b)", env), None, "post")
        ctx.oblige("default:children[k]==CHILDK(c,r+1,k)", it.spec_bool(
            "all(result[k] == CHILDK(%s, b, k, FQ_OF) for k in range(0, len(result)))" % ARGS, env), None, "post")
        return inputs
    return fn


def t_children_raises(repo, specs, rc):
    """Out-of-order or too-fine requests raise ValueError instead of returning cells."""
    def fn(ctx):
        it = mk(ctx, repo, specs)
        cell, inputs = valid_cell(it, ctx, "c", rc)
        idx = it.eval_spec("ENC_CELL(cell)", None, {"cell": cell})
        b = it.ops.int_var("b")
        inputs["b"] = b
        ctx.assume(zand(b >= -(1 << 20), b <= (1 << 20), zor(b < rc, b > MAXB)))
        try:
            it.call(CHILDREN, idx, b)
        except PyRaise as e:
            ctx.oblige("out-of-order-request-raises-ValueError", e.exc == "ValueError", e.where, "raises")
            return inputs
        ctx.oblige("out-of-order-request-raises-ValueError", False, None, "raises")
        return inputs
    return fn


def t_parent(repo, specs, r, a):
    """cell_to_parent(x, a) for concrete levels a <= r: the real function returns the specified ancestor id."""
    def fn(ctx):
        it = mk(ctx, repo, specs)
        cell, inputs = valid_cell(it, ctx, "x", r)
        idx = it.eval_spec("ENC_CELL(cell)", None, {"cell": cell})
        pa = it.call(PARENT, idx, a)
        env = {"cell": cell, "a": a, "pa": pa}
        ctx.oblige("parent==PARENT_ID(x,a)", it.spec_bool("pa == PARENT_ID(%s, a)" % ARGS, env), None, "post")
        return inputs
    return fn


def t_parent_compose(repo, specs, r):
    """Composition, at specification level (PARENT_ID is tied to the real function by parent[res,to]): for
    symbolic a <= m <= r the level-a ancestor of the level-m ancestor of x is the level-a ancestor of x."""
    def fn(ctx):
        it = mk(ctx, repo, specs)
        ops = it.ops
        cell, inputs = valid_cell(it, ctx, "x", r)
        a, m = ops.int_var("a"), ops.int_var("m")
        inputs.update({"a": a, "m": m})
        ctx.assume(zand(a >= -1, a <= m, m <= r))
        env = {"cell": cell, "a": a, "m": m, "r": r}
        # the level-m ancestor as a cell
        pS = it.eval_spec("cell['S'] >> (2 * (r - m)) if m >= 2 else 0", None, env)
        pcell = {"origin": cell["origin"], "segment": cell["segment"], "S": pS, "resolution": m}
        env["p"] = pcell
        PARGS = ARGS.replace("cell[", "p[")
        ctx.oblige("ancestor-cell-is-valid", z3.Implies(m >= 0, it.spec_bool("VALID_CELL(p)", env)), None, "lemma")
        ctx.oblige("PARENT_ID(x,m)==id(ancestor-cell)", z3.Implies(m >= 0, it.spec_bool("PARENT_ID(%s, m) == ENC_CELL(p)" % ARGS, env)), None, "lemma")
        ctx.oblige("parent-composes: PARENT_ID(ancestor_m(x),a)==PARENT_ID(x,a)",
                   z3.Implies(m >= 0, it.spec_bool("PARENT_ID(%s, a) == PARENT_ID(%s, a)" % (PARGS, ARGS), env)), None, "lemma")
        return inputs
    return fn


def t_parent_default(repo, specs, r):
    def fn(ctx):
        it = mk(ctx, repo, specs)
        cell, inputs = valid_cell(it, ctx, "x", r)
        idx = it.eval_spec("ENC_CELL(cell)", None, {"cell": cell})
        try:
            pa = it.call(PARENT, idx)
        except PyRaise as e:
            ctx.oblige("default-parent-of-world-raises-ValueError", zand(r == -1, e.exc == "ValueError"), e.where, "raises")
            return inputs
        env = {"cell": cell, "a": r - 1, "pa": pa}
        ctx.oblige("default-parent==PARENT_ID(x,r-1)", it.spec_bool("pa == PARENT_ID(%s, a)" % ARGS, env) if r >= 0 else False, None, "post")
        return inputs
    return fn


def t_parent_raises(repo, specs, r):
    def fn(ctx):
        it = mk(ctx, repo, specs)
        cell, inputs = valid_cell(it, ctx, "x", r)
        idx = it.eval_spec("ENC_CELL(cell)", None, {"cell": cell})
        a = it.ops.int_var("a")
        inputs["a"] = a
        ctx.assume(zand(a >= -(1 << 20), a <= (1 << 20), zor(a < -1, a > r)))
        try:
            it.call(PARENT, idx, a)
        except PyRaise as e:
            ctx.oblige("out-of-order-parent-request-raises-ValueError", e.exc == "ValueError", e.where, "raises")
            return inputs
        ctx.oblige("out-of-order-parent-request-raises-ValueError", False, None, "raises")
        return inputs
    return fn


def t_child_parent(repo, specs, rc, b):
    """Soundness, completeness, no repetition, contiguity - over the real cell_to_parent and the spec CHILDK
    (which t_children ties to the real cell_to_children)."""
    def fn(ctx):
        it = mk(ctx, repo, specs)
        ops = it.ops
        cell, inputs = valid_cell(it, ctx, "c", rc)
        idx = it.eval_spec("ENC_CELL(cell)", None, {"cell": cell})
        env = {"cell": cell, "b": b, "FQ_OF": it.extra_globals["FQ_OF"], "idx": idx}
        n = it.eval_spec("NCHILD(cell['resolution'], b)", None, env)
        k = ops.int_var("k")
        k2 = ops.int_var("k2")
        inputs.update({"k": k, "k2": k2})
        ctx.assume(zand(k >= 0, zbool(ops.compare("<", k, n)), k2 >= 0, zbool(ops.compare("<", k2, n))))
        env["k"], env["k2"] = k, k2
        ck = it.eval_spec("CHILDK(%s, b, k, FQ_OF)" % ARGS, None, env)
        ck2 = it.eval_spec("CHILDK(%s, b, k2, FQ_OF)" % ARGS, None, env)
        # (L3) no repetition
        ctx.oblige("no-repetition: CHILDK(k)==CHILDK(k2) => k==k2", z3.Implies(ck == ck2, k == k2), None, "lemma")
        # (L1) soundness: the real cell_to_parent maps every listed child back to c
        back = it.call(PARENT, ck, rc)
        ctx.oblige("soundness: cell_to_parent(child_k, res c)==c", zbool(ops.compare("==", back, idx)), None, "post")
        # the listed child is a valid id of level b
        gr = it.call(c05.GRES, ck)
        ctx.oblige("child_k-has-resolution-b", zbool(ops.compare("==", gr, b)), None, "post")
        # (L6) contiguity for res(c) >= 1: consecutive ids of level b
        if rc >= 1:
            env["ck"] = ck
            ctx.oblige("contiguous: CHILDK(k)==CHILDK(0)+k*STRIDE(b)", it.spec_bool(
                "ck == CHILDK(%s, b, 0, FQ_OF) + k * STRIDE(b)" % ARGS, env), None, "lemma")
        return inputs
    return fn


def t_complete(repo, specs, rc, b):
    """(L2) completeness: a valid level-b cell d whose cell_to_parent(d, res c) is c is one of the listed children;
    for res(c) >= 1 additionally every valid level-b id in the numeric range of the run is a descendant."""
    def fn(ctx):
        it = mk(ctx, repo, specs)
        ops = it.ops
        cell, inputs = valid_cell(it, ctx, "c", rc)
        d, in2 = valid_cell(it, ctx, "d", b)
        inputs.update(in2)
        idx = it.eval_spec("ENC_CELL(cell)", None, {"cell": cell})
        did = it.eval_spec("ENC_CELL(cell)", None, {"cell": d})
        env = {"cell": cell, "d": d, "b": b, "FQ_OF": it.extra_globals["FQ_OF"], "idx": idx, "did": did}
        n = it.eval_spec("NCHILD(cell['resolution'], b)", None, env)
        # explicit witness index of d in the list
        kk = it.eval_spec("INDEX_IN_CHILDREN(cell['resolution'], b, d['origin'].id, d['segment'], d['S'], cell['S'])", None, env)
        env["kk"] = kk
        par = it.call(PARENT, did, rc)
        is_desc = zbool(ops.compare("==", par, idx))
        listed = zand(zbool(ops.compare(">=", kk, 0)), zbool(ops.compare("<", kk, n)),
                      it.spec_bool("did == CHILDK(%s, b, kk, FQ_OF)" % ARGS, env))
        ctx.oblige("completeness: parent(d)==c => d is listed", z3.Implies(is_desc, listed), None, "lemma")
        if rc >= 1:
            lo = it.eval_spec("CHILDK(%s, b, 0, FQ_OF)" % ARGS, None, env)
            env["n"] = n
            hi = it.eval_spec("CHILDK(%s, b, n - 1, FQ_OF)" % ARGS, None, env)
            inrun = zand(zbool(ops.compare(">=", did, lo)), zbool(ops.compare("<=", did, hi)))
            ctx.oblige("contiguous-run: valid level-b id within [first,last] is a descendant", z3.Implies(inrun, is_desc), None, "lemma")
        return inputs
    return fn


def t_res0(repo, specs):
    def fn(ctx):
        it = mk(ctx, repo, specs)
        res = it.call(RES0)
        env = {"result": res, "FQ_OF": it.extra_globals["FQ_OF"]}
        ctx.oblige("get_res0_cells==children(world,0)", it.spec_bool(
            "len(result) == 12 and all(result[k] == ENC(k, 0, 0, 0, 0) for k in range(0, 12))", env), None, "post")
        return {}
    return fn


def pairs(tier):
    out = []
    for rc in range(-1, 30):
        for b in range(rc, MAXB):
            if tier == "thorough" or b - rc <= 3 or (b == 29 and rc % 4 == 1) or (rc in (1, 2) and b in (5, 12, 20)):
                out.append((rc, b))
    return out


def tasks(tier):
    repo = Repo(REPO)
    specs = specs_module()
    out = []
    for rc, b in pairs(tier):
        out.append(PTask("C06/children[res=%d,to=%d]" % (rc, b), t_children(repo, specs, rc, b), FUNCS, deciding=True,
                         replay_kind="children"))
        if b > rc:
            out.append(PTask("C06/child-parent[res=%d,to=%d]" % (rc, b), t_child_parent(repo, specs, rc, b), FUNCS,
                             deciding=True, replay_kind="children"))
            out.append(PTask("C06/complete[res=%d,to=%d]" % (rc, b), t_complete(repo, specs, rc, b), FUNCS, deciding=True,
                             replay_kind="children"))
    for r in range(-1, 30):
        for a in range(-1, r + 1):
            out.append(PTask("C06/parent[res=%d,to=%d]" % (r, a), t_parent(repo, specs, r, a), [PARENT, c05.SER, c05.DES, c05.GRES],
                             deciding=True, replay_kind="parent"))
        out.append(PTask("C06/parent-compose[res=%d]" % r, t_parent_compose(repo, specs, r), [PARENT], deciding=True, replay_kind="parent"))
        out.append(PTask("C06/parent-default[res=%d]" % r, t_parent_default(repo, specs, r), [PARENT], deciding=True, replay_kind="parent"))
        out.append(PTask("C06/parent-raises[res=%d]" % r, t_parent_raises(repo, specs, r), [PARENT], deciding=True, replay_kind="parent"))
        out.append(PTask("C06/children-raises[res=%d]" % r, t_children_raises(repo, specs, r), [CHILDREN], deciding=True, replay_kind="children"))
        if r < 29:
            out.append(PTask("C06/children-default[res=%d]" % r, t_children_default(repo, specs, r), [CHILDREN], deciding=True, replay_kind="children"))
    out.append(PTask("C06/get_res0_cells", t_res0(repo, specs), [RES0, CHILDREN], deciding=True, replay_kind="children"))
    return out


ASSUMPTIONS = BASE_TRUSTED + [
    "Python ints are modelled as 80-bit signed bit-vectors with a proved no-wrap obligation per +,-,*,<<",
    "quick tier: child levels b <= res(c)+3 plus b = 29 and a few far pairs per coarse level; the thorough tier runs every pair (res, b) with -1 <= res <= b <= 29",
    "cells are addressed through ENC (the specified id of a valid cell); that serialize/deserialize agree with ENC is re-proved here (C05 contract tasks)",
]


def main(argv=None):
    a = parse_args(argv if argv is not None else sys.argv[1:])
    cmd = "python3-vt -m a5verif check C06 --tier %s" % a.tier
    return run_pyvc_check("C06", a.tier, a.seed, tasks(a.tier), ASSUMPTIONS, cmd)


if __name__ == "__main__":
    sys.exit(main())

"""C09 - compact output is the unique minimal, duplicate-free representation.

What is decided here:
  * bit level, proved for every level r = 0..29 and an arbitrary second cell (all positions at once), under the key
    the code actually sorts its working list by (re-read from the source): siblings are in key order at the stride the
    code tests, no cell unrelated to a sibling group sorts inside it (adjacency), replacing a complete group by its
    parent keeps the neighbours' order (order) and their unrelatedness (transfer), distinct cells have distinct keys
    - i.e. exactly the facts that make "sorted working list + stride test + parents keep the order" find every
    complete sibling group;
  * source level: the input list is consumed only through sorted(set(cells)...), so the result is a function of the
    input set (order and duplication cannot matter);
  * loop level: BOUNDED stand-in (never counted as proved) - the C09 predicate (no duplicates, no complete sibling group
    left, idempotent, order/duplication independent) evaluated natively on a structured pool of antichains.
The coverage half of canonicity is C08.
"""
import ast
import sys
import time
import z3

from .common import PTask, run_pyvc_check, specs_module, parse_args, BASE_TRUSTED
from .. import REPO
from ..framework import native_replay, write_replay_file
from ..pyvc.src import Repo
from ..pyvc.interp import Interp
from ..pyvc.values import zand, zor, znot, zbool
from . import c05, c06, lemmas

COMPACT = lemmas.COMPACT


def input_only_through_sorted_set(repo):
    """Every read of the parameter `cells` in compact is `len(cells)` or the argument of set(...) inside sorted(...)."""
    mod, fnode, _ = repo.function(COMPACT)
    p = fnode.args.args[0].arg
    parents = {}
    for n in ast.walk(fnode):
        for c in ast.iter_child_nodes(n):
            parents[c] = n
    bad = []
    for n in ast.walk(fnode):
        if isinstance(n, ast.Name) and n.id == p:
            if isinstance(n.ctx, ast.Store):
                bad.append("line %d: parameter re-bound" % n.lineno)
                continue
            par = parents.get(n)
            ok = False
            if isinstance(par, ast.Call) and isinstance(par.func, ast.Name) and par.func.id == "len":
                ok = True
            if isinstance(par, ast.Call) and isinstance(par.func, ast.Name) and par.func.id == "set" and len(par.args) == 1:
                gp = parents.get(par)
                if isinstance(gp, ast.Call) and isinstance(gp.func, ast.Name) and gp.func.id == "sorted" and gp.args and gp.args[0] is par:
                    ok = True
            if not ok:
                bad.append("line %d: `%s` read outside len(..) / sorted(set(..))" % (n.lineno, p))
    return bad


def t_sort_key(repo, specs, r):
    """The real key function equals the hierarchical key specification on valid ids (only when the code has one)."""
    def fn(ctx):
        it = lemmas.mk(ctx, repo, specs)
        c, inputs = lemmas.sym_valid(it, ctx, "c", r)
        cid = it.eval_spec("ENC_CELL(c)", None, {"c": c})
        kf = lemmas.sort_key_function(repo)
        k = it.call(kf, cid)
        ctx.oblige("sort-key==HKEY(id)", it.spec_bool("k == HKEY(cid)", {"k": k, "cid": cid}), None, "post")
        return inputs
    return fn


def tasks(tier):
    repo = Repo(REPO)
    specs = specs_module()
    out = []
    rp = {"c09": True}
    kf = lemmas.sort_key_function(repo)
    for r in range(0, 30):
        out.append(PTask("C09/lemma/order-transfer-adjacency[r=%d]" % r, lemmas.t_order(repo, specs, r), [COMPACT] + ([kf] if kf else []),
                         deciding=True, replay_kind="compact", replay_payload=rp, timeout_ms=120000))
        out.append(PTask("C09/lemma/key-injective[r=%d]" % r, lemmas.t_key_injective(repo, specs, r), [kf] if kf else [], deciding=True,
                         replay_kind="compact", replay_payload=rp, timeout_ms=120000))
        out.append(PTask("C09/lemma/first-and-stride[r=%d]" % r, lemmas.t_first_and_stride(repo, specs, r), [lemmas.FIRST, lemmas.STRIDEF],
                         replay_kind="compact", replay_payload=rp))
        out.append(PTask("C09/lemma/siblings-and-merge[r=%d]" % r, lemmas.t_merge(repo, specs, r), [lemmas.PARENT], replay_kind="compact",
                         replay_payload=rp, timeout_ms=120000))
    if kf and not kf.startswith("<"):
        for r in range(-1, 30):
            out.append(PTask("C09/sort-key[r=%d]" % r, t_sort_key(repo, specs, r), [kf], replay_kind="compact", replay_payload=rp))
    out.append(PTask("C09/lemma/key-injective[r=-1]", lemmas.t_key_injective(repo, specs, -1), [kf] if kf else [], deciding=True,
                     replay_kind="compact", replay_payload=rp, timeout_ms=120000))
    return out


ASSUMPTIONS = BASE_TRUSTED + [
    "A2: sorted(set(X), key=K) returns the K-strictly-increasing enumeration of the element set of X (builtin contract; K injective on valid ids is proved)",
    "A10 (paper): a group-free antichain with a given coverage is unique, so 'sorted, duplicate-free, no complete sibling group, same coverage (C08)' is the canonical set",
    "the loop-level step from the bit-level lemmas to 'no complete sibling group is left' is NOT proved here: it is covered by a bounded native check (labelled bounded, not counted in discharged)",
    "Python ints are 80-bit signed bit-vectors with a proved no-wrap obligation per operation",
]


def main(argv=None):
    a = parse_args(argv if argv is not None else sys.argv[1:])
    repo = Repo(REPO)
    cmd = "python3-vt -m a5verif check C09 --tier %s" % a.tier

    def extra(res, coverage):
        # source-level obligation
        bad = input_only_through_sorted_set(repo)
        coverage["obligations"] += 1
        if bad:
            rp = native_replay("C09", "compact", {"c09": True, "model": {}})
            path = write_replay_file("C09", "C09/compact/input-only-through-sorted-set", {"property": "C09", "obligation": "C09/compact/input-only-through-sorted-set",
                                                                                           "detail": bad, "native": rp})
            res.violations.append(("C09/compact/input-only-through-sorted-set: %s" % bad[0], path, "" if rp.get("confirmed") else "no-failing-input-found"))
        else:
            coverage["discharged"] += 1
        # bounded stand-in for the loop level
        t0 = time.time()
        rp = native_replay("C09", "compact", {"c09": True, "model": {}})
        coverage["bounded"] = {"what": "C09 predicate (no duplicates, no complete sibling group left, idempotent, order/duplication independent) evaluated natively on the structured antichain pool of a5verif/replay_compact.py",
                               "result": rp, "seconds": round(time.time() - t0, 2), "counted_as_proved": False}
        if rp.get("confirmed"):
            path = write_replay_file("C09", "C09/compact/loop-level(bounded)", {"property": "C09", "obligation": "C09/compact/loop-level(bounded)", "native": rp})
            res.violations.append(("C09/compact/loop-level(bounded stand-in)", path, ""))
        coverage["key_function"] = lemmas.sort_key_function(repo)

    return run_pyvc_check("C09", a.tier, a.seed, tasks(a.tier), ASSUMPTIONS, cmd, extra_steps=[extra])


if __name__ == "__main__":
    sys.exit(main())

"""C09 - compact output is the unique minimal, duplicate-free representation.

What is decided here:
  * bit level, proved for every level r = 0..29 and an arbitrary second cell (all positions at once), under the key
    the code actually sorts its working list by (re-read from the source): siblings are in key order at the stride the
    code tests, no cell unrelated to a sibling group sorts inside it (adjacency), replacing a complete group by its
    parent keeps the neighbours' order (order) and their unrelatedness (transfer), distinct cells have distinct keys
    - i.e. exactly the facts that make "sorted working list + stride test + parents keep the order" find every
    complete sibling group;
  * source level: the input list is consumed only through sorted(set(cells)...), so the result is a function of the
    input set (order and duplication cannot matter);
  * loop level: BOUNDED stand-in (never counted as proved) - the C09 predicate (no duplicates, no complete sibling group
    left, idempotent, order/duplication independent) evaluated natively on a structured pool of antichains.
The coverage half of canonicity is C08.
"""
import ast
import sys
import time
import z3

from .common import PTask, run_pyvc_check, specs_module, parse_args, BASE_TRUSTED
from .. import REPO
from ..framework import native_replay, write_replay_file
from ..pyvc.src import Repo
from ..pyvc.interp import Interp
from ..pyvc.ctx import Settings
from ..pyvc.values import zand, zor, znot, zbool
from . import c05, c06, lemmas

COMPACT = lemmas.COMPACT


def input_only_through_sorted_set(repo):
    """Every read of the parameter `cells` in compact is `len(cells)` or the sole argument of set(..) / frozenset(..),
    and that set value is consumed only by sorted(..) (directly, or through one local that is itself only read by
    sorted(..) / len(..)) - so the working list is a function of the input SET."""
    mod, fnode, _ = repo.function(COMPACT)
    p = fnode.args.args[0].arg
    parents = {}
    for n in ast.walk(fnode):
        for c in ast.iter_child_nodes(n):
            parents[c] = n

    def is_call(node, names):
        return isinstance(node, ast.Call) and isinstance(node.func, ast.Name) and node.func.id in names

    def consumed_by_sorted(node, depth=0):
        """node evaluates to the set: it must be argument 0 of sorted(..), or be bound to a local used only that way."""
        par = parents.get(node)
        if is_call(par, ("sorted",)) and par.args and par.args[0] is node:
            return True
        if depth == 0 and isinstance(par, ast.Assign) and len(par.targets) == 1 and isinstance(par.targets[0], ast.Name) and par.value is node:
            x = par.targets[0].id
            stores = [n for n in ast.walk(fnode) if isinstance(n, ast.Name) and n.id == x and isinstance(n.ctx, ast.Store)]
            if len(stores) != 1 or x == p:
                return False
            for n in ast.walk(fnode):
                if isinstance(n, ast.Name) and n.id == x and isinstance(n.ctx, ast.Load):
                    pp = parents.get(n)
                    if is_call(pp, ("len",)) and len(pp.args) == 1:
                        continue
                    if not consumed_by_sorted(n, 1):
                        return False
            return True
        return False
    bad = []
    for n in ast.walk(fnode):
        if isinstance(n, ast.Name) and n.id == p:
            if isinstance(n.ctx, ast.Store):
                bad.append("line %d: parameter re-bound" % n.lineno)
                continue
            par = parents.get(n)
            ok = False
            if is_call(par, ("len",)) and len(par.args) == 1:
                ok = True
            if is_call(par, ("set", "frozenset")) and len(par.args) == 1 and not par.keywords and consumed_by_sorted(par):
                ok = True
            if not ok:
                bad.append("line %d: `%s` read outside len(..) / sorted(set(..))" % (n.lineno, p))
    return bad


def lean_a10():
    """Run the Lean 4 kernel on lean/A10.lean: accepted, no sorry, only the three core axioms.  A failure here is a
    checker error (the lemma does not depend on /repo), never a violation."""
    import os
    import re
    import shutil
    import subprocess
    from .. import VERIF
    path = os.path.join(VERIF, "lean", "A10.lean")
    exe = shutil.which("lean")
    if exe is None:
        return {"ok": False, "detail": "lean not on PATH"}
    t0 = time.time()
    try:
        p = subprocess.run([exe, path], capture_output=True, text=True, timeout=600)
    except subprocess.TimeoutExpired:
        return {"ok": False, "detail": "lean timed out"}
    out = p.stdout + p.stderr
    src = open(path).read()
    axioms = set()
    for m in re.finditer(r"depends on axioms: \[([^\]]*)\]", out):
        axioms.update(a.strip() for a in m.group(1).split(","))
    thms = re.findall(r"'(A10\.[A-Za-z_]+)' depends on axioms", out)
    ok = (p.returncode == 0 and "sorry" not in src and "sorryAx" not in out and "error" not in out
          and not re.search(r"^\s*(axiom|unsafe|opaque)\b", src, re.M)
          and axioms <= {"propext", "Classical.choice", "Quot.sound"} and "A10.unique_R" in thms)
    return {"ok": ok, "theorems": thms, "axioms": sorted(axioms), "seconds": round(time.time() - t0, 2), "back_end": "lean4 kernel",
            "detail": out[-600:] if not ok else "accepted"}


def t_sort_key(repo, specs, r):
    """The real key function equals the hierarchical key specification on valid ids (only when the code has one)."""
    def fn(ctx):
        it = lemmas.mk(ctx, repo, specs)
        c, inputs = lemmas.sym_valid(it, ctx, "c", r)
        cid = it.eval_spec("ENC_CELL(c)", None, {"c": c})
        kf = lemmas.sort_key_function(repo)
        k = it.call(kf, cid)
        ctx.oblige("sort-key==HKEY(id)", it.spec_bool("k == HKEY(cid)", {"k": k, "cid": cid}), None, "post")
        return inputs
    return fn


def lemma_axioms(syms):
    """The bit-level lemmas of this check (tasks lemma/order-transfer-adjacency[r], lemma/key-injective[r]) as
    loop-level hypotheses about the uninterpreted symbols, for a first child c and any valid cell y."""
    from ..pyvc.values import zand, zor
    RES, VALIDID, FIRSTC, STRIDEF, PAR1, KEYF, REL = (syms[k].decl for k in ("RES", "VALIDID", "FIRSTC", "STRIDEF", "PAR1", "KEYF", "REL"))
    c, y = z3.Int("c"), z3.Int("y")

    def sib(j):
        return c + j * STRIDEF(RES(c))

    def unrel_all(n):
        return zand(*[z3.Not(REL(sib(j), y)) for j in range(n)])

    def concl(n):
        return zand(z3.Not(REL(PAR1(c), y)), z3.Not(REL(y, PAR1(c))),
                    z3.Implies(KEYF(y) < KEYF(c), KEYF(y) < KEYF(PAR1(c))),
                    z3.Implies(KEYF(y) > KEYF(sib(n - 1)), KEYF(y) > KEYF(PAR1(c))))
    pre = zand(VALIDID(c), FIRSTC(c), VALIDID(y), RES(c) >= 0, RES(c) <= 29)
    body = z3.Implies(pre, zand(z3.Implies(zand(RES(c) >= 2, unrel_all(4)), concl(4)),
                                z3.Implies(zand(RES(c) == 1, unrel_all(5)), concl(5)),
                                # level 0: every valid cell is related to one of the twelve faces
                                z3.Implies(RES(c) == 0, z3.Not(unrel_all(12)))))
    ax = [z3.ForAll([c, y], body, patterns=[z3.MultiPattern(PAR1(c), KEYF(y))])]
    a, b = z3.Int("a"), z3.Int("b")
    ax.append(z3.ForAll([a, b], REL(a, b) == REL(b, a), patterns=[REL(a, b)]))
    return ax


def t_compact_canonical(repo, specs):
    """Loop level (abstraction, mathematical ints): for an input of valid, pairwise non-ancestral cells the output of
    the real compact is strictly increasing in the sort key (hence duplicate-free), pairwise unrelated, and contains
    no complete contiguous sibling group."""
    from ..pyvc.interp_expr import UF
    from ..pyvc.values import SymList, zand
    from ..contracts.registry import registry_abs_canonical
    from ..contracts import compact_contracts as cc
    I, B = z3.IntSort(), z3.BoolSort()

    def fn(ctx):
        syms = {
            "RES": UF("RES", z3.Function("RES", I, I)), "VALIDID": UF("VALIDID", z3.Function("VALIDID", I, B)),
            "FIRSTC": UF("FIRSTC", z3.Function("FIRSTC", I, B)), "STRIDEF": UF("STRIDEF", z3.Function("STRIDEF", I, I)),
            "PAR1": UF("PAR1", z3.Function("PAR1", I, I)), "KEYF": UF("KEYF", z3.Function("KEYF", I, I)),
            "REL": UF("REL", z3.Function("REL", I, I, B)),
        }
        env = dict(syms)
        RX = z3.Int("RX")
        env["RX"] = RX
        it = Interp(ctx, repo, registry_abs_canonical(), specs, by_contract=[cc.GRES, cc.FIRST, cc.STRIDE, cc.PARENT, cc.SORTKEY], extra_globals=env)
        RES, VALIDID, REL, KEYF = syms["RES"].decl, syms["VALIDID"].decl, syms["REL"].decl, syms["KEYF"].decl
        arr0, n0 = z3.Array("cells", I, I), z3.Int("ncells")
        cells = SymList(arr0, n0)
        k, k2 = z3.Int("k"), z3.Int("k2")
        ctx.assume(zand(n0 >= 0, RX == 29))
        ctx.assume(z3.ForAll([k], z3.Implies(zand(k >= 0, k < n0), zand(VALIDID(z3.Select(arr0, k)), RES(z3.Select(arr0, k)) >= -1,
                                                                         RES(z3.Select(arr0, k)) <= 29)), patterns=[z3.Select(arr0, k)]))
        # the input is an antichain (duplicates allowed): related elements are equal
        ctx.assume(z3.ForAll([k, k2], z3.Implies(zand(k >= 0, k < n0, k2 >= 0, k2 < n0, REL(z3.Select(arr0, k), z3.Select(arr0, k2))),
                                                 z3.Select(arr0, k) == z3.Select(arr0, k2)),
                             patterns=[z3.MultiPattern(z3.Select(arr0, k), z3.Select(arr0, k2))]))
        if lemmas.sort_key_function(repo) is None:
            ctx.assume(z3.ForAll([k], KEYF(k) == k, patterns=[KEYF(k)]))
        for ax in lemma_axioms(syms):
            ctx.assume(ax)
        it.sorted_global = True
        res = it.call(cc.COMPACT, cells)
        e = dict(env)
        e.update({"result": res, "cells": SymList(arr0, n0)})
        if isinstance(res, list):
            return {"ncells": n0}
        ctx.oblige("output-strictly-increasing-in-the-sort-key(no duplicates)", it.eval_formula(cc.SORTED % ("result", "result", "result", "result"), e), None, "post")
        ctx.oblige("output-pairwise-unrelated", it.eval_formula(cc.UNREL % ("result", "result", "result", "result"), e), None, "post")
        ctx.oblige("output-has-no-complete-contiguous-sibling-group", it.eval_formula("all(not GROUPAT(result, p) for p in range(0, len(result)))", e), None, "post")
        ctx.cover("compact returns")
        return {"ncells": n0}
    return fn


def t_group_contiguous(repo, specs, n):
    """List lemma (loop level, no code): in a strictly key-sorted list of pairwise unrelated valid cells, a complete
    sibling group (n = 4, 5 or 12 cells at stride distance from a first child) that is a SUBSET of the list occupies
    consecutive positions in sibling order - so "no complete contiguous group" (proved for compact's output) means
    "no complete group at all".  Uses the bit-level adjacency / sibling-order lemmas as hypotheses."""
    from ..pyvc.values import zand, zor
    I, B = z3.IntSort(), z3.BoolSort()

    def fn(ctx):
        RES, VALIDID, FIRSTC = z3.Function("RES", I, I), z3.Function("VALIDID", I, B), z3.Function("FIRSTC", I, B)
        STRIDEF, KEYF, REL = z3.Function("STRIDEF", I, I), z3.Function("KEYF", I, I), z3.Function("REL", I, I, B)
        L, ln, c = z3.Array("L", I, I), z3.Int("len"), z3.Int("c")
        a, b, y = z3.Int("a"), z3.Int("b"), z3.Int("y")
        pos = [z3.Int("p%d" % j) for j in range(n)]
        sib = [c + j * STRIDEF(RES(c)) for j in range(n)]
        ctx.assume(zand(ln >= 0, VALIDID(c), FIRSTC(c), RES(c) >= 2 if n == 4 else RES(c) == (1 if n == 5 else 0)))
        # hypotheses as schemas; they are used through explicit instances (proof script): every instance is a
        # consequence of the universally quantified hypothesis, so adding it assumes nothing more
        def valid_at(i):
            return z3.Implies(zand(i >= 0, i < ln), VALIDID(z3.Select(L, i)))

        def sorted_unrelated(i, k):
            return z3.Implies(zand(i >= 0, i < k, k < ln), zand(KEYF(z3.Select(L, i)) < KEYF(z3.Select(L, k)),
                                                             z3.Not(REL(z3.Select(L, i), z3.Select(L, k))),
                                                             z3.Not(REL(z3.Select(L, k), z3.Select(L, i)))))

        def adjacency(j, yy):
            return z3.Implies(zand(VALIDID(yy), *[z3.Not(REL(s_, yy)) for s_ in sib]),
                              z3.Not(zand(KEYF(sib[j]) < KEYF(yy), KEYF(yy) < KEYF(sib[j + 1]))))
        ctx.assume(z3.ForAll([a], valid_at(a), patterns=[z3.Select(L, a)]))
        ctx.assume(z3.ForAll([a, b], sorted_unrelated(a, b), patterns=[z3.MultiPattern(z3.Select(L, a), z3.Select(L, b))]))
        for j in range(n - 1):
            ctx.assume(KEYF(sib[j]) < KEYF(sib[j + 1]))      # bit level: siblings-in-key-order
            ctx.assume(z3.ForAll([y], adjacency(j, y), patterns=[KEYF(y)]))   # bit level: adjacency
        # the group is a subset of the list
        for j in range(n):
            ctx.assume(zand(pos[j] >= 0, pos[j] < ln, z3.Select(L, pos[j]) == sib[j]))
        points = list(pos) + [pos[j] + 1 for j in range(n - 1)]
        for i in points:
            ctx.assume(valid_at(i))
            for k in points:
                ctx.assume(sorted_unrelated(i, k))
        for j in range(n - 1):
            ctx.assume(adjacency(j, z3.Select(L, pos[j] + 1)))
        for j in range(n - 1):
            ctx.oblige("sibling-%d-directly-follows-sibling-%d" % (j + 1, j), pos[j + 1] == pos[j] + 1, None, "lemma")
        ctx.cover("group-contiguous hypotheses")
        return {}
    return fn


def tasks(tier):
    repo = Repo(REPO)
    specs = specs_module()
    out = []
    rp = {"c09": True}
    kf = lemmas.sort_key_function(repo)
    for r in range(0, 30):
        out.append(PTask("C09/lemma/order-transfer-adjacency[r=%d]" % r, lemmas.t_order(repo, specs, r), [COMPACT] + ([kf] if kf else []),
                         deciding=True, replay_kind="compact", replay_payload=rp, timeout_ms=120000))
        out.append(PTask("C09/lemma/key-injective[r=%d]" % r, lemmas.t_key_injective(repo, specs, r), [kf] if kf else [], deciding=True,
                         replay_kind="compact", replay_payload=rp, timeout_ms=120000))
        out.append(PTask("C09/lemma/first-and-stride[r=%d]" % r, lemmas.t_first_and_stride(repo, specs, r), [lemmas.FIRST, lemmas.STRIDEF],
                         replay_kind="compact", replay_payload=rp))
        out.append(PTask("C09/lemma/siblings-and-merge[r=%d]" % r, lemmas.t_merge(repo, specs, r), [lemmas.PARENT], replay_kind="compact",
                         replay_payload=rp, timeout_ms=120000))
    if kf and not kf.startswith("<"):
        for r in range(-1, 30):
            out.append(PTask("C09/sort-key[r=%d]" % r, t_sort_key(repo, specs, r), [kf], replay_kind="compact", replay_payload=rp))
    st = Settings(theory="int")
    out.append(PTask("C09/compact-canonical(loop level)", t_compact_canonical(repo, specs), [COMPACT], deciding=True, replay_kind="compact",
                     replay_payload=rp, settings=st, timeout_ms=120000))
    for n in (4, 5, 12):
        out.append(PTask("C09/lemma/complete-group-is-contiguous[n=%d]" % n, t_group_contiguous(repo, specs, n), [], deciding=True,
                         replay_kind="compact", replay_payload=rp, settings=st))
    # bridge from the loop-level vocabulary to the hypotheses of lean/A10.lean (U2, RU, HC); spec-level facts whose
    # link to the real cell_to_parent / cell_to_children is C06 (parent[..], child-parent[..], complete[..])
    for r in range(-1, 30):
        out.append(PTask("C09/bridge/parent-compose[r=%d]" % r, c06.t_parent_compose(repo, specs, r), [lemmas.PARENT], deciding=True,
                         replay_kind="compact", replay_payload=rp))
        if r >= 0:
            out.append(PTask("C09/bridge/ancestor[r=%d]" % r, lemmas.t_ancestor_is_parent(repo, specs, r), [], replay_kind="compact", replay_payload=rp))
        if r <= 28:
            out.append(PTask("C09/bridge/has-child[r=%d]" % r, lemmas.t_has_child(repo, specs, r), [], replay_kind="compact", replay_payload=rp))
    out.append(PTask("C09/lemma/key-injective[r=-1]", lemmas.t_key_injective(repo, specs, -1), [kf] if kf else [], deciding=True,
                     replay_kind="compact", replay_payload=rp, timeout_ms=120000))
    return out


ASSUMPTIONS = BASE_TRUSTED + [
    "A2: sorted(set(X), key=K) returns the K-strictly-increasing enumeration of the element set of X (builtin contract; K injective on valid ids is proved)",
    "A10 (a group-free antichain with a given coverage is unique) is machine-checked: lean/A10.lean (Lean 4 kernel, no Mathlib, axioms propext / Classical.choice / Quot.sound only) proves it for any levelled forest under hypotheses U1, U2, RU, HC, each of which is an obligation discharged here (bridge/parent-compose, bridge/ancestor, bridge/has-child) or in C06 (parent[res=r,to=r]); what stays on paper is the instantiation itself: reading alpha as the valid ids, res as resolution+1, up as PARENT_ID, R as IS_ANCESTOR, D as 30, and 'A' as the element set of compact's output (DESIGN.md 15.8)",
    "loop level: compact's loops are verified over the abstraction (mathematical ints; RES/FIRSTC/STRIDEF/PAR1/KEYF/REL uninterpreted; callees by contract) with the bit-level lemmas of this check as hypotheses; the bounded native check on the antichain pool is kept as an additional, labelled stand-in and is not counted",
    "idempotence and 'the one canonical set' follow from the proved facts (sorted by key, pairwise unrelated, no complete group), C08 and A10.unique_R; the final assembly of these facts is on paper (DESIGN.md 15.8) and is additionally exercised by the bounded native check",
    "Python ints are 80-bit signed bit-vectors with a proved no-wrap obligation per operation",
]


def main(argv=None):
    a = parse_args(argv if argv is not None else sys.argv[1:])
    repo = Repo(REPO)
    cmd = "python3-vt -m a5verif check C09 --tier %s" % a.tier

    def extra(res, coverage):
        # source-level obligation
        bad = input_only_through_sorted_set(repo)
        coverage["obligations"] += 1
        if bad:
            rp = native_replay("C09", "compact", {"c09": True, "model": {}})
            path = write_replay_file("C09", "C09/compact/input-only-through-sorted-set", {"property": "C09", "obligation": "C09/compact/input-only-through-sorted-set",
                                                                                           "detail": bad, "native": rp})
            res.violations.append(("C09/compact/input-only-through-sorted-set: %s" % bad[0], path, "" if rp.get("confirmed") else "no-failing-input-found"))
        else:
            coverage["discharged"] += 1
        # A10: the Lean kernel re-checks lean/A10.lean on every run
        lean = lean_a10()
        coverage["obligations"] += 1
        coverage["lean"] = lean
        if lean["ok"]:
            coverage["discharged"] += 1
        else:
            res.errors.append("C09/lemma/A10(lean4): %s" % lean["detail"][:300])
        # bounded stand-in for the loop level
        t0 = time.time()
        rp = native_replay("C09", "compact", {"c09": True, "model": {}})
        coverage["bounded"] = {"what": "C09 predicate (no duplicates, no complete sibling group left, idempotent, order/duplication independent) evaluated natively on the structured antichain pool of a5verif/replay_compact.py",
                               "result": rp, "seconds": round(time.time() - t0, 2), "counted_as_proved": False}
        if rp.get("confirmed"):
            path = write_replay_file("C09", "C09/compact/loop-level(bounded)", {"property": "C09", "obligation": "C09/compact/loop-level(bounded)", "native": rp})
            res.violations.append(("C09/compact/loop-level(bounded stand-in)", path, ""))
        coverage["key_function"] = lemmas.sort_key_function(repo)

    return run_pyvc_check("C09", a.tier, a.seed, tasks(a.tier), ASSUMPTIONS, cmd, extra_steps=[extra])


if __name__ == "__main__":
    sys.exit(main())

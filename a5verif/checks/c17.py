"""C17 - every API call is a pure function of its arguments (shares the machinery of c16.py)."""
import sys
from .common import parse_args
from . import c16


def main(argv=None):
    a = parse_args(argv if argv is not None else sys.argv[1:])
    return c16.run("C17", a.tier, a.seed)


if __name__ == "__main__":
    sys.exit(main())

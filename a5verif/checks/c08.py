"""C08 - compact never changes the covered region.

Pointwise formulation: fix an arbitrary valid probe cell x whose level RX is at least every input level;
ANCX(c) says "c is an ancestor of (or equal to) x".  A list covers x iff some element does.  The loop-level
proof shows  covers(compact(X)) <=> covers(X)  for the arbitrary x; with C10 (uncompact lists exactly the
descendants) this is the statement over the sets of finest-resolution cells."""
import sys
import z3

from .common import PTask, run_pyvc_check, specs_module, parse_args, BASE_TRUSTED
from .. import REPO
from ..pyvc.src import Repo
from ..pyvc.ctx import Settings, PyRaise
from ..pyvc.interp import Interp
from ..pyvc.interp_expr import UF
from ..pyvc.values import zand, zor, znot, zbool, SymList
from ..contracts.registry import registry_abs
from ..contracts import compact_contracts as cc
from . import c05, c06, c20, lemmas

I = z3.IntSort()
B = z3.BoolSort()


def abs_symbols():
    return {
        "RES": UF("RES", z3.Function("RES", I, I)),
        "VALIDID": UF("VALIDID", z3.Function("VALIDID", I, B)),
        "FIRSTC": UF("FIRSTC", z3.Function("FIRSTC", I, B)),
        "STRIDEF": UF("STRIDEF", z3.Function("STRIDEF", I, I)),
        "PAR1": UF("PAR1", z3.Function("PAR1", I, I)),
        "ANCX": UF("ANCX", z3.Function("ANCX", I, B)),
        "KEYF": UF("KEYF", z3.Function("KEYF", I, I)),
    }


def merge_axiom(syms, RX):
    """Bit-level lemma `merge` (lemmas.t_merge, every level r): for a first child c of level r <= RX, the parent
    covers x iff one of the NSIB(r) ids c + j*STRIDE(r) does."""
    RES, VALIDID, FIRSTC, STRIDEF, PAR1, ANCX = (syms[k].decl for k in ("RES", "VALIDID", "FIRSTC", "STRIDEF", "PAR1", "ANCX"))
    c = z3.Int("c")

    def group(n):
        return zor(*[ANCX(c + j * STRIDEF(RES(c))) for j in range(n)])
    body = z3.Implies(zand(VALIDID(c), RES(c) >= 0, RES(c) <= RX, FIRSTC(c)),
                      zand(z3.Implies(RES(c) >= 2, ANCX(PAR1(c)) == group(4)),
                           z3.Implies(RES(c) == 1, ANCX(PAR1(c)) == group(5)),
                           z3.Implies(RES(c) == 0, ANCX(PAR1(c)) == group(12))))
    return z3.ForAll([c], body, patterns=[PAR1(c)])


def t_compact_coverage(repo, specs):
    def fn(ctx):
        syms = abs_symbols()
        RX = z3.Int("RX")
        env = dict(syms)
        env["RX"] = RX
        it = Interp(ctx, repo, registry_abs(), specs, by_contract=[cc.GRES, cc.FIRST, cc.STRIDE, cc.PARENT], extra_globals=env)
        RES, VALIDID, ANCX = syms["RES"].decl, syms["VALIDID"].decl, syms["ANCX"].decl
        arr0, n0 = z3.Array("cells", I, I), z3.Int("ncells")
        cells = SymList(arr0, n0)
        k = z3.Int("k")
        ctx.assume(zand(n0 >= 0, RX >= -1, RX <= 29))
        ctx.assume(z3.ForAll([k], z3.Implies(zand(k >= 0, k < n0), zand(VALIDID(z3.Select(arr0, k)), RES(z3.Select(arr0, k)) >= -1,
                                                                         RES(z3.Select(arr0, k)) <= RX)), patterns=[z3.Select(arr0, k)]))
        ctx.assume(merge_axiom(syms, RX))
        inputs = {"ncells": n0, "RX": RX}
        res = it.call(cc.COMPACT, cells)
        e = dict(env)
        e.update({"result": res, "cells": SymList(arr0, n0)})
        ctx.oblige("covers(compact(cells)) <=> covers(cells)", it.eval_formula("(%s) == (%s)" % (cc.ANY_RESULT, cc.ANY_CELLS), e), None, "post")
        ctx.oblige("argument-not-modified", zand(cells.arr == arr0, cells.length == n0), None, "frame")
        ctx.cover("compact returns")
        return inputs
    return fn


def tasks(tier):
    repo = Repo(REPO)
    specs = specs_module()
    st = Settings(theory="int")
    out = [PTask("C08/compact-coverage", t_compact_coverage(repo, specs), [cc.COMPACT], deciding=True, replay_kind="compact",
                 settings=st, timeout_ms=120000, replay_payload={"c09": False})]
    rp = {"c09": False}
    for r in range(0, 30):
        out.append(PTask("C08/lemma/first-and-stride[r=%d]" % r, lemmas.t_first_and_stride(repo, specs, r), [lemmas.FIRST, lemmas.STRIDEF],
                         replay_kind="compact", replay_payload=rp))
        out.append(PTask("C08/lemma/merge[r=%d]" % r, lemmas.t_merge(repo, specs, r), [lemmas.PARENT], replay_kind="compact", replay_payload=rp,
                         timeout_ms=120000))
        out.append(PTask("C08/lemma/ancestor[r=%d]" % r, lemmas.t_ancestor_is_parent(repo, specs, r), [], replay_kind="compact", replay_payload=rp))
        out.append(PTask("C08/callee/get_resolution[r=%d]" % r, c05.t_get_resolution(repo, specs, r), [cc.GRES], replay_kind="compact", replay_payload=rp))
        out.append(PTask("C08/callee/parent[res=%d,to=%d]" % (r, r - 1), c06.t_parent(repo, specs, r, r - 1), [cc.PARENT], replay_kind="compact", replay_payload=rp))
    out.append(PTask("C08/callee/get_resolution[r=-1]", c05.t_get_resolution(repo, specs, -1), [cc.GRES], replay_kind="compact", replay_payload=rp))
    return out


ASSUMPTIONS = BASE_TRUSTED + [
    "loop level: mathematical ints; RES/VALIDID/FIRSTC/STRIDEF/PAR1/ANCX uninterpreted; callees (get_resolution, is_first_child, get_stride, cell_to_parent) by contract",
    "A2: sorted(set(X)) returns an enumeration of the element set of X, strictly increasing (builtin contract, not verified)",
    "merge lemma assumed at loop level and discharged at bit level for every level r = 0..29 (tasks lemma/merge[r]) together with the callee contracts (lemma/first-and-stride[r], callee/*)",
    "the probe cell x is arbitrary with level RX >= every input level; coverage of finest-resolution cells follows pointwise",
    "the input list contains valid cell ids only (resolutions -1..29)",
]


def main(argv=None):
    a = parse_args(argv if argv is not None else sys.argv[1:])
    cmd = "python3-vt -m a5verif check C08 --tier %s" % a.tier
    return run_pyvc_check("C08", a.tier, a.seed, tasks(a.tier), ASSUMPTIONS, cmd)


if __name__ == "__main__":
    sys.exit(main())

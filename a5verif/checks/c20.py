"""C20 - cell-count and area metadata agree with the actual hierarchy."""
import math
import sys
import z3

from .common import PTask, run_pyvc_check, specs_module, parse_args, BASE_TRUSTED
from .. import REPO
from ..pyvc.src import Repo
from ..pyvc.ctx import Settings, PyRaise
from ..pyvc.interp import Interp
from ..pyvc.values import zand, zor, znot, zbool
from ..contracts.registry import registry
from . import c05, c06

NUMCELLS = "a5.core.cell_info.get_num_cells"
NUMCHILD = "a5.core.cell_info.get_num_children"
AREA = "a5.core.cell_info.cell_area"


def mk(ctx, repo, specs):
    return Interp(ctx, repo, registry(), specs)


def t_num_cells(repo, specs):
    def fn(ctx):
        it = mk(ctx, repo, specs)
        r = it.ops.int_var("r")
        ctx.assume(zand(r >= -(1 << 20), r <= 30))
        res = it.call(NUMCELLS, r)
        ctx.oblige("get_num_cells(r)==NCELLS(r)", it.spec_bool("res == NCELLS(r)", {"res": res, "r": r}), None, "post")
        return {"r": r}
    return fn


def t_num_children(repo, specs):
    def fn(ctx):
        it = mk(ctx, repo, specs)
        a, b = it.ops.int_var("a"), it.ops.int_var("b")
        ctx.assume(zand(a >= -1, a <= 30, b >= -1, b <= 30))
        res = it.call(NUMCHILD, a, b)
        env = {"res": res, "a": a, "b": b}
        ctx.oblige("get_num_children(a,b)==NCHILD(a,b)", it.spec_bool("res == NCHILD(a, b)", env), None, "post")
        return {"a": a, "b": b}
    return fn


def t_counts_lemma(repo, specs):
    """Sum over any coarser level of the children counts: every level-a cell has NCHILD(a,b) descendants at level b
    (C06 children contract), so the sum is NCELLS(a)*NCHILD(a,b); it must equal NCELLS(b)."""
    def fn(ctx):
        it = mk(ctx, repo, specs)
        a, b = it.ops.int_var("a"), it.ops.int_var("b")
        ctx.assume(zand(a >= -1, a <= b, b <= 30, b >= 0))
        na = it.call(NUMCELLS, a)
        nb = it.call(NUMCELLS, b)
        nab = it.call(NUMCHILD, a, b)
        tot = z3.If(a == -1, nab, it.ops.binop("*", na, nab, "lemma"))
        ctx.oblige("sum-over-level-a-of-children-counts==get_num_cells(b)", tot == nb, None, "lemma")
        return {"a": a, "b": b}
    return fn


def t_nchild_facts(repo, specs):
    """Facts about the child-count function that the loop-level proofs (uncompact) use as hypotheses."""
    def fn(ctx):
        it = mk(ctx, repo, specs)
        a, b = it.ops.int_var("a"), it.ops.int_var("b")
        ctx.assume(zand(a >= -1, a <= 30, b >= -1, b <= 30))
        n = it.call(NUMCHILD, a, b)
        ctx.oblige("get_num_children: 0 below, 1 at, >1 above the own level",
                   zand(z3.Implies(b < a, n == 0), z3.Implies(b == a, n == 1), z3.Implies(b > a, n > 1)), None, "lemma")
        return {"a": a, "b": b}
    return fn


def t_area(repo, specs):
    """Finite domain r in -1..30: the real float code is executed for every r (complete enumeration)."""
    def fn(ctx):
        it = mk(ctx, repo, specs)
        total = it.module_global(repo.module("a5.core.cell_info"), "AUTHALIC_AREA")
        prev = None
        for r in range(-1, 31):
            a = it.call(AREA, r)
            n = it.call(NUMCELLS, r)
            if not isinstance(a, float) or not isinstance(n, int):
                ctx.oblige("cell_area(%d)-is-a-concrete-float" % r, False, None, "post")
                continue
            if r < 0:
                ctx.oblige("cell_area(-1)==sphere-area", a == total, None, "post")
            else:
                ctx.oblige("cell_area(%d)*get_num_cells(%d)==sphere-area-within-2ulp" % (r, r),
                           abs(a * n - total) <= 2 * math.ulp(total), None, "post")
                if prev is not None:
                    ctx.oblige("cell_area(%d)<cell_area(%d)" % (r, r - 1), a < prev, None, "post")
                if r >= 0:
                    prev = a
        return {}
    return fn


def tasks(tier):
    repo = Repo(REPO)
    specs = specs_module()
    out = [
        PTask("C20/get_num_cells", t_num_cells(repo, specs), [NUMCELLS], deciding=True, replay_kind="cellinfo"),
        PTask("C20/get_num_children", t_num_children(repo, specs), [NUMCHILD, NUMCELLS], deciding=True, replay_kind="cellinfo",
              timeout_ms=120000),
        PTask("C20/nchild-facts", t_nchild_facts(repo, specs), [NUMCHILD, NUMCELLS], deciding=True, replay_kind="cellinfo",
              timeout_ms=120000),
        PTask("C20/counts-lemma", t_counts_lemma(repo, specs), [NUMCHILD, NUMCELLS], deciding=True, replay_kind="cellinfo",
              timeout_ms=120000),
        PTask("C20/cell_area[r=-1..30]", t_area(repo, specs), [AREA, NUMCELLS], deciding=True, replay_kind="cellinfo"),
    ]
    # len(cell_to_children(c, b)) == NCHILD(res c, b) and no repetition: the C06 children tasks
    for rc, b in c06.pairs(tier):
        if tier == "thorough" or b - rc <= 2 or rc == -1:
            out.append(PTask("C20/children[res=%d,to=%d]" % (rc, b), c06.t_children(repo, specs, rc, b), c06.FUNCS,
                             deciding=True, replay_kind="children"))
            if b > rc and (rc == -1 or tier == "thorough"):
                out.append(PTask("C20/child-parent[res=%d,to=%d]" % (rc, b), c06.t_child_parent(repo, specs, rc, b), c06.FUNCS,
                                 deciding=True, replay_kind="children"))
    return out


ASSUMPTIONS = BASE_TRUSTED + [
    "Python ints are 80-bit signed bit-vectors with a proved no-wrap obligation per operation",
    "cell_area: the domain r in -1..30 is finite; the interpreter executes the real float code concretely (CPython binary64) for each r",
    "the number of distinct cells obtained by expanding the world cell is taken from the C06 children contract (length and no-repetition), re-proved here for the world cell",
]


def main(argv=None):
    a = parse_args(argv if argv is not None else sys.argv[1:])
    cmd = "python3-vt -m a5verif check C20 --tier %s" % a.tier
    return run_pyvc_check("C20", a.tier, a.seed, tasks(a.tier), ASSUMPTIONS, cmd)


if __name__ == "__main__":
    sys.exit(main())

"""C19 - hex text form of an id round-trips for every 64-bit value (hex_to_u64, u64_to_hex).

The 64-bit domain is split by the number of hex digits L = 1..16 of n (a complete case split); within a case n is
one symbolic bit-vector and strings are vectors of L symbolic characters.  Builtin contracts (assumption A4):
hex(n) for n >= 0 is "0x" followed by the L nibbles from the most significant one, in lower case; int(s, 16) accepts
an optional 0x/0X prefix followed by hex digits of either case and returns their positional value; slicing with
constant bounds drops characters.  A4 is cross-validated at run time against CPython (validation, not proof)."""
import sys
import z3

from .common import PTask, run_pyvc_check, specs_module, parse_args, BASE_TRUSTED
from .. import REPO
from ..pyvc.src import Repo
from ..pyvc.ctx import Settings, PyRaise
from ..pyvc.interp import Interp
from ..pyvc.values import zand, zor, znot, zbool, SymStr
from ..contracts.registry import registry

TOHEX = "a5.core.hex.u64_to_hex"
FROMHEX = "a5.core.hex.hex_to_u64"


def sym_n(it, ctx, L):
    n = it.ops.int_var("n")
    lo = 0 if L == 1 else 16 ** (L - 1)
    ctx.assume(zand(n >= lo, n < 16 ** L))
    it.hex_digits = L
    return n


def nibble_char(it, n, i):
    ops = it.ops
    nib = (n >> ops.int_const(4 * i)) & ops.int_const(15)
    return z3.If(nib < ops.int_const(10), nib + ops.int_const(48), nib + ops.int_const(87))


def t_to_hex(repo, specs, L):
    def fn(ctx):
        it = Interp(ctx, repo, registry(), specs)
        n = sym_n(it, ctx, L)
        try:
            out = it.call(TOHEX, n)
        except PyRaise as e:
            ctx.oblige("u64_to_hex-does-not-raise(%s)" % e.exc, False, e.where, "raises")
            return {"n": n}
        ok_shape = isinstance(out, SymStr) and len(out.chars) == L
        ctx.oblige("text-has-exactly-the-significant-digits(no prefix, sign or padding)", ok_shape, None, "post")
        if ok_shape:
            ops = it.ops
            for i in range(L):
                ch = ops.lift_int(out.chars[i])
                ctx.oblige("digit-%d-is-the-lower-case-nibble" % i, ch == nibble_char(it, n, L - 1 - i), None, "post")
            if L > 1:
                ctx.oblige("no-leading-zero", ops.lift_int(out.chars[0]) != ops.int_const(48), None, "post")
        return {"n": n}
    return fn


def t_roundtrip(repo, specs, L):
    def fn(ctx):
        it = Interp(ctx, repo, registry(), specs)
        n = sym_n(it, ctx, L)
        try:
            out = it.call(TOHEX, n)
            back = it.call(FROMHEX, out)
        except PyRaise as e:
            ctx.oblige("round-trip-does-not-raise(%s)" % e.exc, False, e.where, "raises")
            return {"n": n}
        ctx.oblige("hex_to_u64(u64_to_hex(n))==n", zbool(it.ops.compare("==", back, n)), None, "post")
        return {"n": n}
    return fn


def t_parse(repo, specs, L, zeros):
    """Parsing accepts upper case (each character independently) and leading zeros."""
    def fn(ctx):
        it = Interp(ctx, repo, registry(), specs)
        ops = it.ops
        n = sym_n(it, ctx, L)
        chars = [48] * zeros
        inputs = {"n": n}
        for i in range(L):
            c = nibble_char(it, n, L - 1 - i)
            up = z3.Bool("upper%d" % i)
            inputs["upper%d" % i] = up
            chars.append(z3.If(zand(up, c >= ops.int_const(97)), c - ops.int_const(32), c))
        try:
            back = it.call(FROMHEX, SymStr(chars))
        except PyRaise as e:
            ctx.oblige("parsing-accepts-upper-case-and-leading-zeros(raised %s)" % e.exc, False, e.where, "raises")
            return inputs
        ctx.oblige("hex_to_u64(any-case, %d leading zeros)==n" % zeros, zbool(ops.compare("==", back, n)), None, "post")
        return inputs
    return fn


def tasks(tier):
    repo = Repo(REPO)
    specs = specs_module()
    out = []
    for L in range(1, 17):
        out.append(PTask("C19/u64_to_hex[digits=%d]" % L, t_to_hex(repo, specs, L), [TOHEX], deciding=True, replay_kind="hex"))
        out.append(PTask("C19/roundtrip[digits=%d]" % L, t_roundtrip(repo, specs, L), [TOHEX, FROMHEX], deciding=True, replay_kind="hex"))
        for z in ((0, 1, 4) if tier == "quick" else (0, 1, 2, 3, 4)):
            if L + z <= 20:
                out.append(PTask("C19/parse[digits=%d,zeros=%d]" % (L, z), t_parse(repo, specs, L, z), [FROMHEX], deciding=True, replay_kind="hex"))
    return out


def validate_builtin_contracts():
    """Run-time cross-validation of assumption A4 against CPython (all 65,536 values of each 16-bit lane with the
    other lanes 0 / all ones, single bits, boundaries).  Validation of an assumption, not part of the proof."""
    bad = 0
    n_checked = 0

    def model_hex(n):
        L = max(1, (n.bit_length() + 3) // 4)
        return "0x" + "".join("0123456789abcdef"[(n >> (4 * i)) & 15] for i in range(L - 1, -1, -1))

    def model_int(s):
        if len(s) >= 3 and s[0] == "0" and s[1] in "xX":
            s = s[2:]
        v = 0
        for c in s:
            v = v * 16 + "0123456789abcdef".index(c.lower())
        return v
    vals = set()
    for lane in range(4):
        for other in (0, 0xFFFFFFFFFFFFFFFF):
            mask = 0xFFFF << (16 * lane)
            for v in range(0, 65536, 1):
                vals.add((other & ~mask) | (v << (16 * lane)))
    for b in range(64):
        vals.update({1 << b, (1 << b) - 1, (1 << b) + 1})
    vals = {v for v in vals if 0 <= v < 2 ** 64}
    for v in vals:
        n_checked += 1
        h = hex(v)
        if h != model_hex(v) or int(h[2:], 16) != model_int(h[2:]) or int(h[2:].upper(), 16) != v or int("000" + h[2:], 16) != v or int(h, 16) != v:
            bad += 1
    return {"values": n_checked, "disagreements": bad}


ASSUMPTIONS = BASE_TRUSTED + [
    "A4 (builtin contracts, assumed): hex(n) for n >= 0 = '0x' + the nibbles of n from the most significant non-zero one in lower case ('0' for 0); int(s, 16) accepts an optional 0x/0X prefix then hex digits of either case; s[a:b] with constant bounds; str.upper/lower/zfill and format(n,'x')/'%x' as documented",
    "the case split by number of hex digits L = 1..16 covers [0, 2^64) completely; strings are vectors of L symbolic characters",
    "leading zeros are proved for 0, 1 and 4 zeros (quick) / 0..4 (thorough); longer paddings are not claimed",
]


def main(argv=None):
    a = parse_args(argv if argv is not None else sys.argv[1:])
    cmd = "python3-vt -m a5verif check C19 --tier %s" % a.tier

    def extra(res, coverage):
        v = validate_builtin_contracts()
        coverage["builtin_contract_validation"] = v
        if v["disagreements"]:
            res.errors.append("builtin contract A4 disagrees with CPython on %d values" % v["disagreements"])
    return run_pyvc_check("C19", a.tier, a.seed, tasks(a.tier), ASSUMPTIONS, cmd, extra_steps=[extra])


if __name__ == "__main__":
    sys.exit(main())

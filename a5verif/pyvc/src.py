"""Source loading: the verified text is re-read from the repository's working tree on every run.

Nothing is cached between runs.  A function is addressed by its module-qualified name
(`a5.core.serialization.serialize`, `a5.projections.authalic.AuthalicProjection.forward`).
"""
import ast
import importlib
import os
import sys


class ShapeMismatch(Exception):
    """A contract refers to a function / loop / name that no longer exists (exit 2)."""


class ModuleInfo:
    def __init__(self, repo, name, path):
        self.repo = repo
        self.name = name
        self.path = path
        with open(path, "r", encoding="utf-8") as f:
            self.source = f.read()
        self.tree = ast.parse(self.source, filename=path)
        self.functions = {}
        self.classes = {}
        self.assigns = {}      # name -> list of ast value nodes (module level, in order)
        self.imports = {}      # local name -> (module name, attr or None)
        self.is_package = os.path.basename(path) == "__init__.py"
        for node in self.tree.body:
            if isinstance(node, ast.FunctionDef):
                self.functions[node.name] = node
            elif isinstance(node, ast.ClassDef):
                self.classes[node.name] = node
            elif isinstance(node, ast.Assign):
                for t in node.targets:
                    if isinstance(t, ast.Name):
                        self.assigns.setdefault(t.id, []).append(node.value)
            elif isinstance(node, ast.AnnAssign) and isinstance(node.target, ast.Name) and node.value is not None:
                self.assigns.setdefault(node.target.id, []).append(node.value)
            elif isinstance(node, ast.ImportFrom):
                base = self._resolve_relative(node.module, node.level)
                for a in node.names:
                    self.imports[a.asname or a.name] = (base, a.name)
            elif isinstance(node, ast.Import):
                for a in node.names:
                    self.imports[a.asname or a.name.split(".")[0]] = (a.name if a.asname else a.name.split(".")[0], None)

    def _resolve_relative(self, module, level):
        if level == 0:
            return module
        parts = self.name.split(".")
        if not self.is_package:
            parts = parts[:-1]
        if level > 1:
            parts = parts[: len(parts) - (level - 1)]
        if module:
            parts = parts + module.split(".")
        return ".".join(parts)

    @property
    def live(self):
        return self.repo.live_module(self.name)

    def class_methods(self, cname):
        node = self.classes[cname]
        return {n.name: n for n in node.body if isinstance(n, ast.FunctionDef)}


class Repo:
    def __init__(self, root):
        self.root = os.path.abspath(root)
        self._modules = {}
        if self.root not in sys.path:
            sys.path.insert(0, self.root)

    def module_path(self, name):
        base = os.path.join(self.root, *name.split("."))
        if os.path.isdir(base) and os.path.exists(os.path.join(base, "__init__.py")):
            return os.path.join(base, "__init__.py")
        if os.path.exists(base + ".py"):
            return base + ".py"
        return None

    def has_module(self, name):
        return self.module_path(name) is not None

    def module(self, name):
        if name not in self._modules:
            p = self.module_path(name)
            if p is None:
                raise ShapeMismatch("module %s not found under %s" % (name, self.root))
            self._modules[name] = ModuleInfo(self, name, p)
        return self._modules[name]

    def live_module(self, name):
        m = importlib.import_module(name)
        f = getattr(m, "__file__", None)
        if f and name.split(".")[0] == "a5" and not os.path.abspath(f).startswith(self.root):
            raise RuntimeError("live module %s imported from %s, not from %s" % (name, f, self.root))
        return m

    def split_qualname(self, qual):
        """'a5.core.serialization.serialize' -> (ModuleInfo, [names...])."""
        parts = qual.split(".")
        for i in range(len(parts), 0, -1):
            mname = ".".join(parts[:i])
            if self.has_module(mname) and not (i < len(parts) and self.has_module(".".join(parts[: i + 1]))):
                return self.module(mname), parts[i:]
        raise ShapeMismatch("cannot resolve %s" % qual)

    def function(self, qual):
        """Return (ModuleInfo, FunctionDef, class name or None)."""
        mod, rest = self.split_qualname(qual)
        if len(rest) == 1:
            if rest[0] not in mod.functions:
                raise ShapeMismatch("function %s not found in %s" % (rest[0], mod.path))
            return mod, mod.functions[rest[0]], None
        if len(rest) == 2:
            if rest[0] not in mod.classes:
                raise ShapeMismatch("class %s not found in %s" % (rest[0], mod.path))
            meths = mod.class_methods(rest[0])
            if rest[1] not in meths:
                raise ShapeMismatch("method %s.%s not found in %s" % (rest[0], rest[1], mod.path))
            return mod, meths[rest[1]], rest[0]
        raise ShapeMismatch("cannot resolve %s" % qual)

    def all_modules(self, package="a5"):
        out = []
        base = os.path.join(self.root, package)
        for d, _dirs, files in os.walk(base):
            for f in sorted(files):
                if f.endswith(".py"):
                    rel = os.path.relpath(os.path.join(d, f), self.root)[:-3].split(os.sep)
                    if rel[-1] == "__init__":
                        rel = rel[:-1]
                    out.append(".".join(rel))
        return sorted(out)


def loops_of(fnode):
    """Loops of a function in source order (pre-order), without descending into nested defs."""
    out = []

    def walk(stmts):
        for s in stmts:
            if isinstance(s, (ast.For, ast.While)):
                out.append(s)
                walk(s.body)
                walk(s.orelse)
            elif isinstance(s, ast.If):
                walk(s.body)
                walk(s.orelse)
            elif isinstance(s, (ast.With,)):
                walk(s.body)
            elif isinstance(s, ast.Try):
                walk(s.body)
                for h in s.handlers:
                    walk(h.body)
                walk(s.orelse)
                walk(s.finalbody)

    walk(fnode.body)
    return out

"""The symbolic interpreter: calls, builtins, contracts, specification expressions."""
import ast
import math
from fractions import Fraction
import z3

from .values import (OPQ, SymStr, Choice, SymList, Obj, OPAQUE, Unsupported, is_z3, is_bv, is_zint, is_zreal, is_zbool, is_fp,
                     is_pyint, zand, zor, znot, zbool, tobool_const)
from .ctx import PyRaise, Killed, NoFork, Explorer, Ctx
from .ops import Ops
from .src import ModuleInfo, ShapeMismatch, loops_of
from .interp_expr import ExprMixin, FuncRef, ClassRef, ModRef, BoundMethod, Builtin, UF, HarnessStub
from .interp_stmt import StmtMixin, Frame, _Return, _Break, _Continue, SymRange, SymEnumerate

EXC_NAMES = {"ValueError", "IndexError", "TypeError", "KeyError", "ZeroDivisionError", "OverflowError",
             "Exception", "AssertionError"}


class Interp(ExprMixin, StmtMixin):
    def __init__(self, ctx, repo, registry, specs, by_contract=(), extra_globals=None, depth_limit=40):
        self.ctx = ctx
        self.repo = repo
        self.registry = registry
        self.specs = specs                 # ModuleInfo of the specification module
        self.by_contract = set(by_contract)
        self.extra_globals = extra_globals or {}
        self.ops = Ops(ctx)
        self.depth = 0
        self.depth_limit = depth_limit
        self.call_log = []

    # ------------------------------------------------------------------ entry points
    def call(self, qual, *args, **kwargs):
        mod, fnode, cls = self.repo.function(qual)
        f = FuncRef(mod, fnode, qual, cls)
        return self.call_funcref(f, list(args), kwargs, None, None)

    def spec(self, name, *args):
        f = self.module_global(self.specs, name)
        return self.call_value(f, list(args), {}, None, None)

    def eval_spec(self, expr, frame=None, extra=None):
        """Evaluate a specification expression (Python syntax) over a frame's variables."""
        tree = ast.parse(expr.strip(), mode="eval")
        loc = dict(frame.locals) if frame is not None else {}
        if extra:
            loc.update(extra)
        sframe = Frame(self.specs, None, None, loc)
        return self.eval(sframe, tree.body)

    def eval_formula(self, expr, env):
        """Logical evaluation of a specification formula: no forks; the definedness conditions of its
        arithmetic (no wrap, index in range, ...) are conjoined, so proving it proves them and assuming it
        (after it was proved) assumes nothing more."""
        sframe = Frame(self.specs, None, None, dict(env))
        self.ctx.nofork += 1
        saved = self.ctx.sides
        self.ctx.sides = []
        try:
            v = zbool(self.ops.truth(self.eval(sframe, ast.parse(expr.strip(), mode="eval").body)))
            return zand(*(self.ctx.sides + [v]))
        except NoFork:
            raise Unsupported("specification formula needs a fork: %s" % expr)
        finally:
            self.ctx.nofork -= 1
            self.ctx.sides = saved

    def eval_logical(self, expr, env, name="spec-term-defined"):
        """Fork-free evaluation of a specification term (spec functions are summarised over all their paths);
        the definedness conditions become one obligation."""
        sframe = Frame(self.specs, None, None, dict(env))
        self.ctx.nofork += 1
        saved = self.ctx.sides
        self.ctx.sides = []
        try:
            v = self.eval(sframe, ast.parse(expr.strip(), mode="eval").body)
            sides = list(self.ctx.sides)
        except NoFork:
            raise Unsupported("specification term needs a fork: %s" % expr)
        finally:
            self.ctx.nofork -= 1
            self.ctx.sides = saved
        if sides:
            self.ctx.oblige(name, zand(*sides), None, "safety")
        return v

    def spec_bool(self, expr, env):
        sframe = Frame(self.specs, None, None, dict(env))
        return zbool(self.ops.truth(self.eval(sframe, ast.parse(expr.strip(), mode="eval").body)))

    # ------------------------------------------------------------------ calls
    def e_Call(self, frame, node):
        # quantifiers in specification expressions: all(P for k in range(a, b)) / any(...)
        if isinstance(node.func, ast.Name) and node.func.id in ("all", "any") and len(node.args) == 1 \
                and isinstance(node.args[0], ast.GeneratorExp) and node.func.id not in frame.locals:
            q = self.quantifier(frame, node.func.id, node.args[0])
            if q is not None:
                return q[0]
        fn = self.eval(frame, node.func)
        if isinstance(fn, Builtin) and fn.name == "cast" and len(node.args) == 2:
            return self.eval(frame, node.args[1])        # typing.cast(T, x) is x; T is dropped (DESIGN section 2)
        args = []
        for a in node.args:
            if isinstance(a, ast.Starred):
                args.extend(self.concrete_iter(self.eval(frame, a.value), self.where(frame, node)))
            else:
                args.append(self.eval(frame, a))
        kwargs = {}
        for kw in node.keywords:
            if kw.arg is None:
                raise Unsupported("**kwargs call at %s" % self.where(frame, node))
            kwargs[kw.arg] = self.eval(frame, kw.value)
        return self.call_value(fn, args, kwargs, frame, node)

    def quantifier(self, frame, kind, gen):
        if len(gen.generators) != 1 or gen.generators[0].ifs:
            return None
        g = gen.generators[0]
        if not (isinstance(g.iter, ast.Call) and isinstance(g.iter.func, ast.Name) and g.iter.func.id == "range"
                and isinstance(g.target, ast.Name)):
            return None
        bounds = [self.eval(frame, a) for a in g.iter.args]
        if len(bounds) == 1:
            lo, hi = 0, bounds[0]
        elif len(bounds) == 2:
            lo, hi = bounds
        else:
            return None
        if is_pyint(lo) and is_pyint(hi) and hi - lo <= 64:
            vals = []
            saved = frame.locals.get(g.target.id, _MISSING)
            for k in range(lo, hi):
                frame.locals[g.target.id] = k
                vals.append(zbool(self.ops.truth(self.eval(frame, gen.elt))))
            if saved is _MISSING:
                frame.locals.pop(g.target.id, None)
            else:
                frame.locals[g.target.id] = saved
            return (zand(*vals) if kind == "all" else zor(*vals),)
        ops = self.ops
        kv = ops.int_var(self.ctx.fresh_name("q_" + g.target.id))
        saved = frame.locals.get(g.target.id, _MISSING)
        frame.locals[g.target.id] = kv
        self.ctx.nofork += 1
        saved_sides = self.ctx.sides
        saved_reads = self.ctx.qreads
        self.ctx.sides = []
        self.ctx.qreads = []
        reads = self.ctx.qreads
        try:
            body = zbool(self.ops.truth(self.eval(frame, gen.elt)))
            # definedness of the body's arithmetic (no wrap, index in range, ...) is part of the formula
            body = zand(*(self.ctx.sides + [body]))
        except NoFork:
            raise Unsupported("quantifier body needs a fork/obligation: %s" % ast.unparse(gen.elt))
        finally:
            self.ctx.nofork -= 1
            self.ctx.sides = saved_sides
            self.ctx.qreads = saved_reads
            if saved is _MISSING:
                frame.locals.pop(g.target.id, None)
            else:
                frame.locals[g.target.id] = saved
        rng = zand(kv >= ops.lift_int(lo), kv < ops.lift_int(hi))
        pats = self.patterns_from_reads(reads, kv)
        if kind == "all":
            f = z3.Implies(rng, body)
            return (z3.ForAll([kv], f, patterns=pats) if pats else z3.ForAll([kv], f),)
        f = zand(rng, body)
        if saved_reads is None and self.ctx.settings.theory == "int":
            # definitional skolemisation of a top-level existential: a fresh Boolean e with
            #   (forall k. P(k) => e)  and  (e => P(sk))   for a fresh constant sk.
            # Both are assumptions about fresh symbols only (conservative), and every VC becomes universal.
            e = z3.Bool(self.ctx.fresh_name("ex"))
            sk = ops.int_var(self.ctx.fresh_name("sk_" + g.target.id))
            fa = z3.Implies(f, e)
            self.ctx.pc.append(z3.ForAll([kv], fa, patterns=pats) if pats else z3.ForAll([kv], fa))
            self.ctx.pc.append(z3.Implies(e, z3.substitute(f, (kv, sk))))
            return (e,)
        return (z3.Exists([kv], f),)

    def patterns_from_reads(self, reads, kv):
        """Trigger terms: the array reads / uninterpreted applications recorded while the body was built whose
        index mentions the bound variable and contains no if-then-else or Boolean structure."""
        def mentions(e, depth=0):
            if z3.eq(e, kv):
                return True
            if depth > 6:
                return False
            return any(mentions(c, depth + 1) for c in e.children())

        def pattern_ok(e, depth=0):
            if depth > 8:
                return False
            if z3.is_app(e) and (e.decl().kind() == z3.Z3_OP_ITE or z3.is_bool(e)):
                return False
            return all(pattern_ok(c, depth + 1) for c in e.children())

        uniq = []
        for t, idx in reads:
            if mentions(idx) and pattern_ok(idx) and not any(z3.eq(t, u) for u in uniq):
                if z3.is_app(t) and t.decl().kind() == z3.Z3_OP_SELECT and not (z3.is_const(t.arg(0)) or pattern_ok(t.arg(0))):
                    continue
                uniq.append(t)
        return uniq[:6]

    def patterns(self, body, kv):
        """Trigger terms: array reads and uninterpreted applications that mention the bound variable."""
        found = []
        seen = set()

        def mentions(e):
            if z3.eq(e, kv):
                return True
            return any(mentions(c) for c in e.children())

        def walk(e):
            if e.get_id() in seen:
                return
            seen.add(e.get_id())
            if z3.is_app(e):
                kind = e.decl().kind()
                if kind in (z3.Z3_OP_SELECT, z3.Z3_OP_UNINTERPRETED) and e.num_args() > 0 and mentions(e):
                    found.append(e)
                    return
                for c in e.children():
                    walk(c)
            elif z3.is_quantifier(e):
                return

        walk(body)

        def pattern_ok(e):
            if z3.is_app(e) and (e.decl().kind() == z3.Z3_OP_ITE or z3.is_bool(e)):
                return False
            return all(pattern_ok(c) for c in e.children())

        uniq = []
        for t in found:
            if pattern_ok(t) and not any(z3.eq(t, u) for u in uniq):
                uniq.append(t)
        return uniq[:6]

    def call_value(self, fn, args, kwargs, frame, node):
        w = self.where(frame, node) if frame is not None and node is not None else None
        if isinstance(fn, FuncRef):
            return self.call_funcref(fn, args, kwargs, frame, node)
        if isinstance(fn, BoundMethod):
            if isinstance(fn.func, FuncRef):
                return self.call_funcref(fn.func, [fn.obj] + args, kwargs, frame, node)
            return self.call_method(fn.obj, fn.func, args, kwargs, w)
        if isinstance(fn, Builtin):
            return self.call_builtin(fn.name, args, kwargs, w)
        if isinstance(fn, ClassRef):
            return self.construct(fn, args, kwargs, frame, node)
        if isinstance(fn, HarnessStub):
            return fn.fn(*args, **kwargs)
        if isinstance(fn, UF):
            t = fn.decl(*[self.ops.lift_int(a) for a in args])
            if self.ctx.qreads is not None and len(args) >= 1:
                for a in args:
                    self.ctx.qreads.append((t, self.ops.lift_int(a)))
            return t
        if isinstance(fn, Choice):
            raise Unsupported("call through a choice of callables at %s" % w)
        if callable(fn):
            # external concrete callable (math.*): concrete arguments only
            return self.call_external(fn, args, kwargs, w)
        raise Unsupported("call of %r at %s" % (fn, w))

    def call_external(self, fn, args, kwargs, w):
        if any(a is OPQ for a in args) or (self.ctx.settings.float_mode == "opaque" and getattr(fn, "__module__", "") == "math"):
            if getattr(fn, "__name__", "") in ("floor", "ceil", "trunc") or fn is round:
                raise Unsupported("integer part of an abstracted float at %s" % w)
            return OPQ
        conc = []
        for a in args:
            if is_z3(a) or isinstance(a, (Choice, SymList)):
                raise Unsupported("external call %s with a symbolic argument at %s" % (getattr(fn, "__name__", fn), w))
            conc.append(float(a) if isinstance(a, Fraction) else a)
        try:
            r = fn(*conc, **kwargs)
        except ValueError:
            raise PyRaise("ValueError", w)
        except ZeroDivisionError:
            raise PyRaise("ZeroDivisionError", w)
        return self.norm(r)

    def convert_external(self, v):
        if isinstance(v, (int, float, str, bool)) or v is None:
            return self.norm(v)
        if callable(v):
            return v
        raise Unsupported("external value %r" % (v,))

    def construct(self, cref, args, kwargs, frame, node):
        w = self.where(frame, node) if frame is not None and node is not None else None
        if cref.name in EXC_NAMES:
            return OPAQUE
        live = cref.live
        if cref.modinfo is not None and live is None:
            live = getattr(cref.modinfo.live, cref.name, None)
        # TypedDict: a plain dict built from keyword arguments
        if live is not None and isinstance(live, type) and issubclass(live, dict) and hasattr(live, "__annotations__") \
                and hasattr(live, "__total__"):
            if args:
                raise Unsupported("positional TypedDict construction at %s" % w)
            return dict(kwargs)
        # NamedTuple
        if live is not None and isinstance(live, type) and issubclass(live, tuple) and hasattr(live, "_fields"):
            vals = dict(zip(live._fields, args))
            vals.update(kwargs)
            return Obj(cref.name, {f: vals[f] for f in live._fields}, None)
        if cref.modinfo is None:
            raise Unsupported("construction of external class %s at %s" % (cref.name, w))
        obj = Obj(cref.name, {}, cref.modinfo)
        init = self.find_method(cref.modinfo, cref.name, "__init__")
        if init is not None:
            self.call_funcref(init, [obj] + args, kwargs, frame, node)
        return obj

    def bind_args(self, fnode, args, kwargs, frame_mod, w):
        a = fnode.args
        if a.vararg or a.kwarg or a.kwonlyargs or a.posonlyargs:
            raise Unsupported("signature of %s" % fnode.name)
        names = [x.arg for x in a.args]
        if len(args) > len(names):
            raise PyRaise("TypeError", w)
        loc = {}
        for n, v in zip(names, args):
            loc[n] = v
        for k, v in kwargs.items():
            if k not in names or k in loc:
                raise PyRaise("TypeError", w)
            loc[k] = v
        defaults = a.defaults
        for i, d in enumerate(defaults):
            n = names[len(names) - len(defaults) + i]
            if n not in loc:
                df = Frame(frame_mod, None, None, {})
                loc[n] = self.eval(df, d)
        for n in names:
            if n not in loc:
                raise PyRaise("TypeError", w)
        return loc

    def call_funcref(self, f, args, kwargs, frame, node):
        w = self.where(frame, node) if frame is not None and node is not None else None
        qual = f.qual
        contract = self.registry.get(qual)
        if qual in self.by_contract and contract is not None:
            return self.apply_contract(contract, f, args, kwargs, w)
        if qual in self.registry.merged_calls and self.ctx.nofork == 0:
            return self.call_merged(f, args, kwargs, w)
        if self.ctx.nofork and self.ctx.sides is not None:
            # logical mode: try the fork-free inline first, otherwise summarise all paths of the (pure) function
            n0 = len(self.ctx.sides)
            try:
                return self.inline(f, args, kwargs, w)
            except NoFork:
                del self.ctx.sides[n0:]
                return self.call_merged(f, args, kwargs, w, logical=True)
        return self.inline(f, args, kwargs, w)

    def inline(self, f, args, kwargs, w):
        if self.depth >= self.depth_limit:
            raise Unsupported("call depth limit at %s" % f.qual)
        for d in f.node.decorator_list:
            if not (isinstance(d, ast.Name) and d.id in ("property", "staticmethod")):
                raise Unsupported("UNSUPPORTED decorator %s on %s" % (ast.unparse(d), f.qual))
        loc = self.bind_args(f.node, args, kwargs, f.modinfo, w)
        fr = Frame(f.modinfo, f.node, f.qual, loc)
        self.check_loop_shape(f.qual, f.node)
        self.depth += 1
        try:
            self.exec_block(fr, f.node.body)
            return None
        except _Return as r:
            return r.value
        finally:
            self.depth -= 1

    # ------------------------------------------------------------------ modular call: contract instead of body
    def apply_contract(self, c, f, args, kwargs, w):
        ctx = self.ctx
        loc = self.bind_args(f.node, args, kwargs, f.modinfo, w)
        self.call_log.append((c.qualname, w))
        for label, expr in c.requires:
            ctx.oblige("%s/call-pre/%s@%s" % (c.qualname, label, w), self.eval_formula(expr, loc), w, "call-pre")
        # exceptional behaviour: raises E iff cond
        for exc, cond in c.raises.items():
            if ctx.branch(self.eval_formula(cond, loc), w):
                raise PyRaise(exc, w)
        res = self.fresh_result(c, loc)
        env = dict(loc)
        env["result"] = res
        for label, expr in c.ensures:
            ctx.assume(self.eval_formula(expr, env))
        return res

    def fresh_result(self, c, loc):
        ops = self.ops
        t = c.result_type
        nm = self.ctx.fresh_name("ret_" + c.qualname.split(".")[-1])
        if t == "int":
            return ops.int_var(nm)
        if t == "bool":
            return z3.Bool(nm)
        if t == "intlist":
            return SymList(z3.Array(nm + "$arr", ops.int_sort(), ops.int_sort()), ops.int_var(nm + "$len"))
        if t == "cell":
            return self.fresh_cell(nm)
        if t == "real":
            return z3.Real(nm)
        if t == "none":
            return None
        raise Unsupported("result type %s" % t)

    def fresh_cell(self, nm, assume_range=True):
        ops = self.ops
        o = ops.int_var(nm + "$o")
        if assume_range:
            self.ctx.assume(zand(o >= ops.int_const(0), o < ops.int_const(12)))
        origins = self.module_global(self.repo.module("a5.core.origin"), "origins")
        origin = Choice([(o == ops.int_const(i), origins[i]) for i in range(len(origins))])
        return {"origin": origin, "segment": ops.int_var(nm + "$g"), "S": ops.int_var(nm + "$S"),
                "resolution": ops.int_var(nm + "$r")}

    # ------------------------------------------------------------------ merged inline call (ITE summary)
    def call_merged(self, f, args, kwargs, w, logical=False):
        """Explore all paths of a small helper and merge them into one summary (strongest postcondition)."""
        ctx = self.ctx
        from . import ranges
        outer_pc = list(ctx.pc)
        saved_bounds = dict(ranges.BOUNDS)
        lists = [a for a in args if isinstance(a, list)]
        snap = [list(l) for l in lists]
        sub = Explorer(ctx.settings)
        # inside the helper, feasibility is judged from the helper's own branch conditions and the interval facts only:
        # an over-approximation (extra summarised paths are guarded by their conditions), and much cheaper
        sub.ignore_prefix = len(outer_pc)
        outcomes = []

        def task(sctx):
            sctx.pc = list(outer_pc)
            ranges.BOUNDS.update(saved_bounds)      # interval facts of the enclosing path hold in the helper too
            sctx.memo = ctx.memo
            sctx.fresh_n = ctx.fresh_n
            for l, s0 in zip(lists, snap):
                l[:] = s0
            it = Interp(sctx, self.repo, self.registry, self.specs, self.by_contract, self.extra_globals)
            it.depth = self.depth + 1
            it.naming_off = True       # definitions made on a helper's own path would not outlive it
            sctx.nofork = 0
            sctx.sides = None
            n0 = len(outer_pc)
            try:
                r = it.inline(f, args, kwargs, w)
                outcomes.append((zand(*sctx.pc[n0:]), "return", r, [list(l) for l in lists]))
            except PyRaise as e:
                outcomes.append((zand(*sctx.pc[n0:]), "raise", e.exc, None))
            return None

        sub.explore(task)
        ranges.BOUNDS.clear()
        ranges.BOUNDS.update(saved_bounds)          # facts learned on the helper's own paths do not outlive them
        ranges._MEMO.clear()                        # (memo entries may depend on the dropped bounds; kept terms stay alive)
        self.ctx.ex.branch_checks += sub.branch_checks
        for l, s0 in zip(lists, snap):
            l[:] = s0
        rets = [o for o in outcomes if o[1] == "return"]
        raises = [o for o in outcomes if o[1] == "raise"]
        if logical:
            # definedness of the summarised function becomes part of the enclosing formula
            for ob in sub.obligations:
                ctx.sides.append(z3.Implies(ob.pc, ob.goal))
            for cond, _, exc, _ in raises:
                ctx.sides.append(z3.Not(cond))
        else:
            # obligations discovered inside the helper belong to the caller's run
            self.ctx.ex.obligations.extend(sub.obligations)
            for cond, _, exc, _ in raises:
                if ctx.branch(cond, w):
                    raise PyRaise(exc, w)
        if not rets:
            raise Killed()
        # merge: last path is the default
        val = rets[-1][2]
        state = rets[-1][3]
        for cond, _, r, st in reversed(rets[:-1]):
            m = self.merge_values(cond, r, val)
            if m is None:
                raise Unsupported("cannot merge results of %s" % f.qual)
            val = m[0]
            new_state = []
            for a, b in zip(st, state):
                m = self.merge_values(cond, a, b)
                if m is None:
                    raise Unsupported("cannot merge list effects of %s" % f.qual)
                new_state.append(m[0])
            state = new_state
        for l, s1 in zip(lists, state):
            l[:] = [self.name_term(z3.simplify(x), "m") if is_z3(x) else x for x in s1]
        return self.name_term(val, "r") if is_z3(val) and not isinstance(val, (tuple, list)) else (
            tuple(self.name_term(x, "r") if is_z3(x) else x for x in val) if isinstance(val, tuple) else val)

    # ------------------------------------------------------------------ methods of built-in containers
    def call_method(self, obj, name, args, kwargs, w):
        ops = self.ops
        if name in ("append", "extend", "reverse", "pop", "insert", "clear", "sort", "update", "setdefault", "remove"):
            self.check_not_shared(obj, w)
        if isinstance(obj, list):
            if name == "append":
                obj.append(args[0])
                return None
            if name == "extend":
                obj.extend(self.concrete_iter(args[0], w))
                return None
            if name == "reverse":
                obj.reverse()
                return None
            if name == "copy":
                return list(obj)
            if name == "index":
                if is_z3(args[0]):
                    raise Unsupported("list.index with symbolic value at %s" % w)
                try:
                    return obj.index(args[0])
                except ValueError:
                    raise PyRaise("ValueError", w)
            if name == "pop" and not args:
                if not obj:
                    raise PyRaise("IndexError", w)
                return obj.pop()
        if isinstance(obj, SymList):
            if name == "append":
                obj.arr = z3.Store(obj.arr, obj.length, ops.lift_int(args[0]))
                obj.length = ops.binop("+", obj.length, 1, w)
                self.on_append(obj, args[0])
                return None
        if isinstance(obj, dict):
            if name == "get":
                k = args[0]
                if is_z3(k):
                    raise Unsupported("symbolic dict key")
                return obj.get(k, args[1] if len(args) > 1 else None)
            if name == "keys":
                return list(obj.keys())
            if name == "values":
                return list(obj.values())
            if name == "items":
                return [(k, v) for k, v in obj.items()]
        if isinstance(obj, SymStr):
            return self.str_method(obj, name, args, w)
        if isinstance(obj, str) and name in ("lower", "upper", "zfill", "strip", "lstrip", "rstrip") and all(not is_z3(a) for a in args):
            return getattr(obj, name)(*args)
        if isinstance(obj, str) and name == "format" and len(args) == 1 and not kwargs:
            import re
            m = re.fullmatch(r"\{:?([^{}]*)\}", obj)
            if m:
                return self.str_format(args[0], m.group(1) or "d", w)
        if isinstance(obj, tuple) and name == "index" and not is_z3(args[0]):
            return obj.index(args[0])
        raise Unsupported("method %s of %s at %s" % (name, type(obj).__name__, w))

    def on_append(self, symlist, value):
        pass

    # ------------------------------------------------------------------ builtins
    def call_builtin(self, name, args, kwargs, w):
        ops = self.ops
        ctx = self.ctx
        if name == "print":
            return None
        if name == "cast" and len(args) == 2:
            return args[1]
        if name in EXC_NAMES:
            return OPAQUE
        if name == "len":
            v = args[0]
            if isinstance(v, (list, tuple, str, dict, set)):
                return len(v)
            if isinstance(v, SymStr):
                return len(v.chars)
            if isinstance(v, SymList):
                return v.length
            raise Unsupported("len of %s at %s" % (type(v).__name__, w))
        if name == "range":
            if all(is_pyint(a) for a in args):
                return range(*args)
            if len(args) == 1:
                return SymRange(0, args[0])
            if len(args) == 2:
                return SymRange(args[0], args[1])
            raise Unsupported("symbolic range with step at %s" % w)
        if name == "enumerate":
            v = args[0]
            if isinstance(v, (list, tuple, range)):
                return [(i, x) for i, x in enumerate(v)]
            if isinstance(v, (SymList, SymRange)):
                return SymEnumerate(v)
            raise Unsupported("enumerate of %s" % type(v).__name__)
        if name == "reversed":
            return list(reversed(self.concrete_iter(args[0], w)))
        if name == "zip":
            return list(zip(*[self.concrete_iter(a, w) for a in args]))
        if name in ("max", "min") and any(a is OPQ for a in args):
            return OPQ
        if name in ("abs", "float") and args and args[0] is OPQ:
            return OPQ
        if name == "round" and args and args[0] is OPQ:
            raise Unsupported("round of an abstracted float at %s" % w)
        if name == "sum" and self.ctx.settings.float_mode == "opaque":
            vals = self.concrete_iter(args[0], w)
            if any(v is OPQ for v in vals) or (len(args) > 1 and args[1] is OPQ):
                return OPQ
        if name in ("max", "min"):
            vals = list(args) if len(args) > 1 else self.concrete_iter(args[0], w)
            cur = vals[0]
            for v in vals[1:]:
                c = ops.compare(">" if name == "max" else "<", v, cur, w)
                if isinstance(c, bool):
                    cur = v if c else cur
                else:
                    m = self.merge_values(c, v, cur)
                    if m is None:
                        raise Unsupported("max/min merge at %s" % w)
                    cur = m[0]
            return cur
        if name == "abs":
            v = args[0]
            if not is_z3(v):
                return abs(v)
            c = ops.compare("<", v, 0, w)
            return self.merge_values(c, ops.neg(v, w), v)[0]
        if name == "hex":
            return self.str_hex(args[0], w, prefix=True, upper=False)
        if name == "format" and len(args) == 2 and isinstance(args[1], str):
            return self.str_format(args[0], args[1], w)
        if name == "str" and len(args) == 1 and isinstance(args[0], (SymStr, str)):
            return args[0]
        if name == "int" and len(args) == 2 and isinstance(args[0], (SymStr, str)):
            return self.str_parse_int(args[0], args[1], w)
        if name == "int":
            v = args[0]
            if len(args) == 1 and (ops.is_intlike(v)):
                return v
            if len(args) == 1 and isinstance(v, (Fraction, float)):
                return int(v)
            if len(args) == 1 and isinstance(v, str):
                try:
                    return int(v)
                except ValueError:
                    raise PyRaise("ValueError", w)
            raise Unsupported("int(%r) at %s" % (v, w))
        if name == "bool":
            return self.ops.truth(args[0])
        if name == "float":
            v = args[0]
            if isinstance(v, (int, float, Fraction)):
                return self.norm(float(v)) if not isinstance(v, Fraction) else v
            if isinstance(v, str):
                return self.norm(float(v))
            raise Unsupported("float() of symbolic at %s" % w)
        if name == "list":
            if not args:
                return []
            v = args[0]
            if isinstance(v, range) and len(v) > 4096:
                raise Unsupported("UNSUPPORTED %s: list(range) of %d elements" % (w, len(v)))
            if isinstance(v, (list, tuple, range, dict)):
                return list(v)
            raise Unsupported("list(%s) at %s" % (type(v).__name__, w))
        if name == "tuple":
            if not args:
                return ()
            return tuple(self.concrete_iter(args[0], w))
        if name == "set":
            if not args:
                return set()
            v = args[0]
            if isinstance(v, SymList):
                return SymSetView(v)
            if isinstance(v, (list, tuple)) and not any(is_z3(x) for x in v):
                return set(v)
            raise Unsupported("set(%s) at %s" % (type(v).__name__, w))
        if name == "sorted":
            v = args[0]
            key = kwargs.get("key")
            if isinstance(v, (list, tuple, set)) and not any(is_z3(x) for x in v) and key is None:
                return sorted(v, reverse=bool(kwargs.get("reverse", False)))
            if isinstance(v, (list, tuple, set)) and not any(is_z3(x) for x in v):
                keyed = [(self.call_value(key, [x], {}, None, None), x) for x in v]
                if not any(is_z3(kx) for kx, _ in keyed):
                    return [x for _, x in sorted(keyed, key=lambda t: t[0], reverse=bool(kwargs.get("reverse", False)))]
            if isinstance(v, SymSetView) and not kwargs.get("reverse"):
                return self.sorted_set_contract(v.src, key, w)
            raise Unsupported("sorted(%s) at %s" % (type(v).__name__, w))
        if name == "sum":
            vals = self.concrete_iter(args[0], w)
            cur = args[1] if len(args) > 1 else 0
            for v in vals:
                cur = ops.binop("+", cur, v, w)
            return cur
        if name == "isinstance":
            return self.isinstance_(args[0], args[1], w)
        if name == "hasattr":
            v = args[0]
            if isinstance(v, Obj):
                return args[1] in v.attrs or (v.modinfo is not None and self.find_method(v.modinfo, v.cls, args[1]) is not None)
            raise Unsupported("hasattr at %s" % w)
        if name == "all" or name == "any":
            vals = [zbool(ops.truth(v)) for v in self.concrete_iter(args[0], w)]
            return zand(*vals) if name == "all" else zor(*vals)
        if name == "round":
            if not is_z3(args[0]):
                return round(float(args[0]) if isinstance(args[0], Fraction) else args[0], *args[1:])
            raise Unsupported("round of symbolic at %s" % w)
        if name == "dict":
            return dict(kwargs)
        if name == "divmod":
            return (ops.binop("//", args[0], args[1], w), ops.binop("%", args[0], args[1], w))
        raise Unsupported("builtin %s at %s" % (name, w))

    def sorted_set_contract(self, src, key, w):
        """Builtin contract (assumption A2): sorted(set(X), key=K) is the enumeration of the element set of X,
        strictly increasing in K (K must be injective on the elements - obligation of the caller's proof)."""
        ops, ctx = self.ops, self.ctx
        nm = ctx.fresh_name("sorted")
        S = SymList(z3.Array(nm + "$arr", ops.int_sort(), ops.int_sort()), ops.int_var(nm + "$len"))
        srt = ops.int_sort()
        pos = z3.Function(nm + "$pos", srt, srt)
        srcf = z3.Function(nm + "$src", srt, srt)
        k = ops.int_var(nm + "$k")
        zero = ops.int_const(0)
        ctx.assume(S.length >= zero)
        ctx.assume(S.length <= src.length)
        ctx.assume(z3.ForAll([k], z3.Implies(zand(k >= zero, k < src.length),
                                             zand(pos(k) >= zero, pos(k) < S.length, z3.Select(S.arr, pos(k)) == z3.Select(src.arr, k))),
                             patterns=[z3.Select(src.arr, k), pos(k)]))
        ctx.assume(z3.ForAll([k], z3.Implies(zand(k >= zero, k < S.length),
                                             zand(srcf(k) >= zero, srcf(k) < src.length, z3.Select(src.arr, srcf(k)) == z3.Select(S.arr, k))),
                             patterns=[z3.Select(S.arr, k), srcf(k)]))

        def keyof(e):
            if key is None:
                return e
            return self.logical_call(key, [e], w)
        one = ops.int_const(1)
        a, b = keyof(z3.Select(S.arr, k)), keyof(z3.Select(S.arr, k + one))
        ctx.assume(z3.ForAll([k], z3.Implies(zand(k >= zero, k + one < S.length), a < b), patterns=[z3.Select(S.arr, k)]))
        if getattr(self, "sorted_global", False):
            k2 = ops.int_var(nm + "$k2")
            a2, b2 = keyof(z3.Select(S.arr, k)), keyof(z3.Select(S.arr, k2))
            ctx.assume(z3.ForAll([k, k2], z3.Implies(zand(k >= zero, k < k2, k2 < S.length), a2 < b2),
                                 patterns=[z3.MultiPattern(z3.Select(S.arr, k), z3.Select(S.arr, k2))]))
        self.sorted_lists = getattr(self, "sorted_lists", [])
        self.sorted_lists.append((S, src, key))
        return S

    def logical_call(self, fn, args, w):
        """Value of a call inside a logical formula: the `logical_result` expression of the callee's contract."""
        if isinstance(fn, FuncRef):
            c = self.registry.get(fn.qual)
            if c is not None and getattr(c, "logical_result", None):
                loc = self.bind_args(fn.node, args, {}, fn.modinfo, w)
                return self.ops.lift_int(self.eval_spec(c.logical_result, None, loc))
        raise Unsupported("key function without a logical_result contract at %s" % w)

    # ------------------------------------------------------------------ strings (C19)
    def str_hex(self, v, w, prefix, upper, width=0):
        """hex(v) / format(v, 'x') for v >= 0 with a known number of hex digits (builtin contract A4).
        The number of digits comes from the harness (`self.hex_digits`: 16^(L-1) <= v < 16^L, or v == 0 for L == 1)."""
        ops = self.ops
        if is_pyint(v):
            t = ("%X" if upper else "%x") % v if v >= 0 else None
            if t is None:
                raise Unsupported("hex of a negative constant at %s" % w)
            return ("0x" if prefix else "") + t.rjust(width, "0")
        L = getattr(self, "hex_digits", None)
        if L is None or not ops.is_symint(v):
            raise Unsupported("hex()/format() of a symbolic value without a digit-count case at %s" % w)
        self.ctx.oblige("safety:hex-of-non-negative@%s" % w, v >= ops.int_const(0), w, "safety")
        lo = ops.int_const(0 if L == 1 else 16 ** (L - 1))
        self.ctx.oblige("safety:hex-digit-count-case@%s" % w, zand(v >= lo, v < ops.int_const(16 ** L)), w, "safety")
        chars = [48, 120] if prefix else []
        digs = []
        for i in range(L - 1, -1, -1):
            nib = (v >> ops.int_const(4 * i)) & ops.int_const(15)
            base = 55 if upper else 87
            digs.append(z3.If(nib < ops.int_const(10), nib + ops.int_const(48), nib + ops.int_const(base)))
        pad = [48] * max(0, width - len(digs))
        return SymStr(chars + pad + digs)

    def str_format(self, v, spec, w):
        import re
        m = re.fullmatch(r"(0?)(\d*)([xX])", spec)
        if not m:
            raise Unsupported("format spec %r at %s" % (spec, w))
        width = int(m.group(2)) if m.group(2) else 0
        if width and not m.group(1):
            raise Unsupported("space-padded format %r at %s" % (spec, w))
        return self.str_hex(v, w, prefix=False, upper=(m.group(3) == "X"), width=width)

    def str_parse_int(self, s, base, w):
        """int(s, 16) for a string of known length (builtin contract A4): optional 0x/0X prefix, then hex digits of
        either case; any other character is a ValueError."""
        ops = self.ops
        if base != 16:
            raise Unsupported("int(s, %r) at %s" % (base, w))
        if isinstance(s, str):
            try:
                return int(s, 16)
            except ValueError:
                raise PyRaise("ValueError", w)
        chars = [ops.lift_int(c) for c in s.chars]
        if not chars:
            raise PyRaise("ValueError", w)
        if len(chars) >= 3:
            is_pref = zand(chars[0] == ops.int_const(48), zor(chars[1] == ops.int_const(120), chars[1] == ops.int_const(88)))
            if self.ctx.branch(is_pref, w):
                chars = chars[2:]
        total = ops.int_const(0)
        for c in chars:
            isd = zand(c >= ops.int_const(48), c <= ops.int_const(57))
            isl = zand(c >= ops.int_const(97), c <= ops.int_const(102))
            isu = zand(c >= ops.int_const(65), c <= ops.int_const(70))
            self.ctx.guard_error(znot(zor(isd, isl, isu)), "ValueError", w)
            d = z3.If(isd, c - ops.int_const(48), z3.If(isl, c - ops.int_const(87), c - ops.int_const(55)))
            total = ops.binop("+", ops.binop("*", total, 16, w), d, w)
        return total

    def str_method(self, s, name, args, w):
        ops = self.ops
        if name in ("lower", "upper"):
            out = []
            for c in s.chars:
                c = ops.lift_int(c)
                if name == "lower":
                    out.append(z3.If(zand(c >= ops.int_const(65), c <= ops.int_const(90)), c + ops.int_const(32), c))
                else:
                    out.append(z3.If(zand(c >= ops.int_const(97), c <= ops.int_const(122)), c - ops.int_const(32), c))
            return SymStr(out)
        if name == "zfill" and is_pyint(args[0]):
            return SymStr([48] * max(0, args[0] - len(s.chars)) + list(s.chars))
        if name == "rjust" and is_pyint(args[0]) and len(args) == 2 and isinstance(args[1], str) and len(args[1]) == 1:
            return SymStr([ord(args[1])] * max(0, args[0] - len(s.chars)) + list(s.chars))
        raise Unsupported("string method .%s() at %s" % (name, w))

    def isinstance_(self, v, cls, w):
        if isinstance(cls, tuple):
            return zor(*[zbool(self.isinstance_(v, c, w)) for c in cls])
        if isinstance(cls, Builtin):
            n = cls.name
            if n == "int":
                return self.ops.is_intlike(v)
            if n == "tuple":
                return isinstance(v, tuple)
            if n == "list":
                return isinstance(v, (list, SymList))
            if n == "str":
                return isinstance(v, str)
            if n == "float":
                return isinstance(v, (float, Fraction)) or is_zreal(v) or is_fp(v)
            if n == "bool":
                return isinstance(v, bool) or is_zbool(v)
            if n == "dict":
                return isinstance(v, dict)
        if isinstance(cls, ClassRef) and isinstance(v, Obj):
            return v.cls == cls.name
        raise Unsupported("isinstance at %s" % w)


class SymSetView:
    """set(X) of a symbolic list, only ever consumed by sorted()."""

    def __init__(self, src):
        self.src = src


_MISSING = object()

"""Expression evaluation of the symbolic interpreter (mixin)."""
import ast
import math
import types
from fractions import Fraction
import z3

from .values import (OPQ, SymStr, Choice, SymList, Obj, OPAQUE, Unsupported, is_z3, is_bv, is_zint, is_zreal, is_zbool, is_fp,
                     is_pyint, zand, zor, znot, zbool, tobool_const)
from .ctx import PyRaise, Killed, NoFork
from .src import ModuleInfo, ShapeMismatch

BINOPS = {ast.Add: "+", ast.Sub: "-", ast.Mult: "*", ast.Div: "/", ast.FloorDiv: "//", ast.Mod: "%",
          ast.Pow: "**", ast.LShift: "<<", ast.RShift: ">>", ast.BitAnd: "&", ast.BitOr: "|", ast.BitXor: "^"}
CMPOPS = {ast.Eq: "==", ast.NotEq: "!=", ast.Lt: "<", ast.LtE: "<=", ast.Gt: ">", ast.GtE: ">=",
          ast.Is: "is", ast.IsNot: "is not", ast.In: "in", ast.NotIn: "not in"}


class FuncRef:
    def __init__(self, modinfo, node, qual, cls=None):
        self.modinfo, self.node, self.qual, self.cls = modinfo, node, qual, cls


class ClassRef:
    def __init__(self, modinfo, name, live=None):
        self.modinfo, self.name, self.live = modinfo, name, live


class ModRef:
    def __init__(self, modinfo=None, live=None):
        self.modinfo, self.live = modinfo, live


class BoundMethod:
    def __init__(self, obj, func):
        self.obj, self.func = obj, func


class Builtin:
    def __init__(self, name):
        self.name = name


class HarnessStub:
    """A callee replaced by the harness (used to cut a chain at a function whose part is verified separately)."""

    def __init__(self, fn):
        self.fn = fn


class UF:
    """Uninterpreted spec function (Int-theory loop-level proofs)."""

    def __init__(self, name, decl):
        self.name, self.decl = name, decl


BUILTIN_NAMES = {"len", "range", "enumerate", "max", "min", "int", "list", "tuple", "sorted", "set", "abs", "sum",
                 "isinstance", "round", "hex", "print", "float", "bool", "all", "any", "hasattr", "zip", "str",
                 "ValueError", "IndexError", "TypeError", "KeyError", "ZeroDivisionError", "OverflowError",
                 "Exception", "AssertionError", "reversed", "dict", "divmod"}


class ExprMixin:
    # ------------------------------------------------------------------ names
    def lookup(self, frame, name, node=None):
        if name in frame.locals:
            return frame.locals[name]
        if name in self.extra_globals:
            return self.extra_globals[name]
        return self.module_global(frame.modinfo, name, node)

    def module_global(self, mod, name, node=None, depth=0):
        if depth > 8:
            raise Unsupported("import chain too deep for %s" % name)
        key = (mod.name, name)
        if key in self.ctx.memo:
            return self.ctx.memo[key]
        val = self._module_global(mod, name, node, depth)
        self.ctx.memo[key] = val
        return val

    def _module_global(self, mod, name, node, depth):
        if name in mod.functions:
            return FuncRef(mod, mod.functions[name], mod.name + "." + name)
        if name in mod.classes:
            return ClassRef(mod, name)
        if name in mod.assigns:
            vals = mod.assigns[name]
            if len(vals) == 1 and self._is_literal(vals[0]):
                return self.norm(ast.literal_eval(vals[0]))
            if len(vals) == 1 and isinstance(vals[0], ast.Name) and vals[0].id in mod.functions:
                return self.module_global(mod, vals[0].id, node, depth + 1)      # alias: sub = subtract
            if mod.repo is None and len(vals) == 1:
                # specification module: constant expressions are evaluated from their text
                from .interp_stmt import Frame
                return self.eval(Frame(mod, None, None, {}), vals[0])
            return self.convert_live(getattr(self._live(mod), name))
        if name in mod.imports:
            mname, attr = mod.imports[name]
            if attr is None:
                if mod.repo.has_module(mname):
                    return ModRef(modinfo=mod.repo.module(mname))
                return ModRef(live=__import__(mname))
            if mod.repo is not None and mod.repo.has_module(mname):
                target = mod.repo.module(mname)
                if mod.repo.has_module(mname + "." + attr):
                    return ModRef(modinfo=mod.repo.module(mname + "." + attr))
                return self.module_global(target, attr, node, depth + 1)
            if mname == "typing" and attr == "cast":
                return Builtin("cast")
            live = __import__(mname, fromlist=[attr])
            return self.convert_live(getattr(live, attr))
        if name in BUILTIN_NAMES:
            return Builtin(name)
        raise Unsupported("unknown name %s in %s" % (name, mod.name))

    def _live(self, mod):
        if mod.repo is None:
            raise Unsupported("no live module for %s" % mod.name)
        return mod.live

    def _is_literal(self, node):
        """Immutable literal (number, string, tuple of those); mutable displays are read live."""
        try:
            v = ast.literal_eval(node)
        except Exception:
            return False

        def imm(x):
            return x is None or isinstance(x, (bool, int, float, str)) or (isinstance(x, tuple) and all(imm(y) for y in x))
        return imm(v)

    def norm(self, v):
        """Normalise a concrete Python value for the current float mode."""
        if isinstance(v, float):
            return self.ops.norm_float(v)
        if isinstance(v, tuple):
            return tuple(self.norm(x) for x in v)
        if isinstance(v, list):
            return [self.norm(x) for x in v]
        return v

    def convert_live(self, v):
        memo = self.ctx.memo
        k = ("live", id(v))
        if k in memo:
            return memo[k]
        r = self._convert_live(v)
        memo[k] = r
        if isinstance(r, (list, dict, Obj)):
            # module-level mutable object: a write to it would be state kept between calls, which single-call
            # verification conditions do not model - such a body is outside the accepted subset
            memo.setdefault("shared-ids", set()).add(id(r))
        return r

    def check_not_shared(self, obj, w):
        if id(obj) in self.ctx.memo.get("shared-ids", ()):
            raise Unsupported("UNSUPPORTED %s write to a module-level object (state kept between calls is not modelled by single-call VCs)" % (w,))

    def _convert_live(self, v):
        if v is None or isinstance(v, (bool, int, str)):
            return v
        if isinstance(v, float):
            return self.ops.norm_float(v)
        if isinstance(v, tuple) and hasattr(v, "_fields"):
            return Obj(type(v).__name__, {f: self.convert_live(getattr(v, f)) for f in v._fields}, None)
        if isinstance(v, tuple):
            return tuple(self.convert_live(x) for x in v)
        if isinstance(v, list):
            out = []
            self.ctx.memo[("live", id(v))] = out
            out.extend(self.convert_live(x) for x in v)
            return out
        if isinstance(v, dict):
            return {k: self.convert_live(x) for k, x in v.items()}
        if isinstance(v, types.FunctionType):
            mname = v.__module__
            if self.repo.has_module(mname):
                mod = self.repo.module(mname)
                if v.__name__ in mod.functions:
                    return FuncRef(mod, mod.functions[v.__name__], mname + "." + v.__name__)
            raise Unsupported("live function %s.%s" % (mname, v.__name__))
        if isinstance(v, types.ModuleType):
            if self.repo.has_module(v.__name__):
                return ModRef(modinfo=self.repo.module(v.__name__))
            return ModRef(live=v)
        if isinstance(v, type):
            mname = getattr(v, "__module__", "")
            if self.repo.has_module(mname) and v.__name__ in self.repo.module(mname).classes:
                return ClassRef(self.repo.module(mname), v.__name__, live=v)
            return ClassRef(None, v.__name__, live=v)
        cls = type(v)
        mname = getattr(cls, "__module__", "")
        if self.repo.has_module(mname) and cls.__name__ in self.repo.module(mname).classes:
            return Obj(cls.__name__, {k: self.convert_live(x) for k, x in vars(v).items()}, self.repo.module(mname))
        raise Unsupported("live value of type %s" % cls.__name__)

    # ------------------------------------------------------------------ expressions
    def where(self, frame, node):
        return "%s:%d" % (frame.modinfo.path.replace(self.repo.root + "/", "") if frame.modinfo.repo is not None
                          else "spec", getattr(node, "lineno", 0))

    def eval(self, frame, node):
        m = getattr(self, "e_" + type(node).__name__, None)
        if m is None:
            raise Unsupported("UNSUPPORTED %s %s" % (self.where(frame, node), type(node).__name__))
        return m(frame, node)

    def e_Constant(self, frame, node):
        v = node.value
        if isinstance(v, float):
            return self.ops.norm_float(v)
        return v

    def e_Name(self, frame, node):
        return self.lookup(frame, node.id, node)

    def e_JoinedStr(self, frame, node):
        return OPAQUE     # message text is dropped by the extraction (DESIGN section 2)

    def e_Tuple(self, frame, node):
        return tuple(self.eval(frame, e) for e in node.elts)

    def e_List(self, frame, node):
        return [self.eval(frame, e) for e in node.elts]

    def e_Dict(self, frame, node):
        out = {}
        for k, v in zip(node.keys, node.values):
            out[self.eval(frame, k)] = self.eval(frame, v)
        return out

    def e_BinOp(self, frame, node):
        a = self.eval(frame, node.left)
        b = self.eval(frame, node.right)
        op = BINOPS.get(type(node.op))
        if op is None:
            raise Unsupported("operator %s" % type(node.op).__name__)
        w = self.where(frame, node)
        if op == "*" and isinstance(a, list) and (is_pyint(b)):
            return a * b
        if op == "*" and isinstance(a, list) and self.ops.is_symint(b):
            # [c] * n with symbolic n: constant array of symbolic length
            if len(a) != 1:
                raise Unsupported("list repetition of a multi-element list by a symbolic count")
            self.ctx.oblige("safety:non-negative-repeat@" + w, b >= self.ops.int_const(0), w, "safety")
            arr = z3.K(self.ops.int_sort(), self.ops.lift_int(a[0]))
            return SymList(arr, b)
        if op == "+" and isinstance(a, (list, tuple)) and isinstance(b, (list, tuple)):
            return a + b
        if op == "%" and isinstance(a, str):
            if a in ("%x", "%X") and self.ops.is_intlike(b):
                return self.str_hex(b, w, prefix=False, upper=(a == "%X"))
            return OPAQUE
        if op == "+" and isinstance(a, (str, SymStr)) and isinstance(b, (str, SymStr)):
            ca = [ord(ch) for ch in a] if isinstance(a, str) else list(a.chars)
            cb = [ord(ch) for ch in b] if isinstance(b, str) else list(b.chars)
            return SymStr(ca + cb)
        if a is OPAQUE or b is OPAQUE:
            return OPAQUE
        return self.ops.binop(op, a, b, w)

    def e_UnaryOp(self, frame, node):
        v = self.eval(frame, node.operand)
        if isinstance(node.op, ast.USub):
            return self.ops.neg(v, self.where(frame, node))
        if isinstance(node.op, ast.UAdd):
            return v
        if isinstance(node.op, ast.Not):
            return znot(self.ops.truth(v))
        if isinstance(node.op, ast.Invert):
            if not is_z3(v):
                return ~v
            if is_bv(v):
                return ~v
        raise Unsupported("unary %s" % type(node.op).__name__)

    def e_BoolOp(self, frame, node):
        is_and = isinstance(node.op, ast.And)
        vals = node.values
        cur = self.eval(frame, vals[0])
        for nxt in vals[1:]:
            t = self.ops.truth(cur)
            c = t if isinstance(t, bool) else tobool_const(t)
            if c is not None:
                if c == is_and:
                    cur = self.eval(frame, nxt)
                    continue
                return cur
            # symbolic left operand: try a pure (fork-free) evaluation of the right operand
            merged = self._try_pure(frame, nxt)
            if merged is not None and self._boolish(cur) and self._boolish(merged[0]):
                r = self.ops.truth(merged[0])
                cur = zand(t, zbool(r)) if is_and else zor(t, zbool(r))
                continue
            if self.ctx.branch(t, self.where(frame, node)) == is_and:
                cur = self.eval(frame, nxt)
            else:
                return cur
        return cur

    def _boolish(self, v):
        return isinstance(v, bool) or is_zbool(v)

    def _try_pure(self, frame, node):
        """Evaluate without forks/obligations; None if that is impossible."""
        self.ctx.nofork += 1
        try:
            return (self.eval(frame, node),)
        except (NoFork, PyRaise):
            return None
        finally:
            self.ctx.nofork -= 1

    def e_IfExp(self, frame, node):
        t = self.ops.truth(self.eval(frame, node.test))
        c = t if isinstance(t, bool) else tobool_const(t)
        if c is not None:
            return self.eval(frame, node.body if c else node.orelse)
        a = self._try_pure(frame, node.body)
        b = self._try_pure(frame, node.orelse)
        if a is not None and b is not None:
            m = self.merge_values(t, a[0], b[0])
            if m is not None:
                return m[0]
        if self.ctx.branch(t, self.where(frame, node)):
            return self.eval(frame, node.body)
        return self.eval(frame, node.orelse)

    def merge_values(self, cond, a, b):
        """ITE of two values; returns (value,) or None when the shapes differ."""
        ops = self.ops
        if a is b:
            return (a,)
        if a is OPQ or b is OPQ:
            if (a is OPQ or isinstance(a, (int, float))) and (b is OPQ or isinstance(b, (int, float))):
                return (OPQ,)
            return None
        if not is_z3(a) and not is_z3(b) and not isinstance(a, (list, tuple, dict, Obj, Choice, SymList)) \
                and not isinstance(b, (list, tuple, dict, Obj, Choice, SymList)):
            try:
                if type(a) is type(b) and a == b:
                    return (a,)
            except Exception:
                pass
        if (self._boolish(a)) and (self._boolish(b)):
            return (z3.If(cond, zbool(a), zbool(b)),)
        if ops.is_intlike(a) and ops.is_intlike(b):
            return (z3.If(cond, ops.lift_int(a), ops.lift_int(b)),)
        num = lambda v: ops.is_intlike(v) or ops.is_realish(v) or is_zreal(v) or isinstance(v, float)
        if num(a) and num(b) and self.ctx.settings.float_mode == "real":
            return (z3.If(cond, ops.lift_real(a), ops.lift_real(b)),)
        if is_fp(a) or is_fp(b):
            return (z3.If(cond, ops.lift_fp(a), ops.lift_fp(b)),)
        if isinstance(a, tuple) and isinstance(b, tuple) and len(a) == len(b):
            out = []
            for x, y in zip(a, b):
                m = self.merge_values(cond, x, y)
                if m is None:
                    return None
                out.append(m[0])
            return (tuple(out),)
        if isinstance(a, list) and isinstance(b, list) and len(a) == len(b):
            out = []
            for x, y in zip(a, b):
                m = self.merge_values(cond, x, y)
                if m is None:
                    return None
                out.append(m[0])
            return (out,)
        # finite choice over concrete non-numeric values
        aa = a.alts if isinstance(a, Choice) else [(True, a)]
        bb = b.alts if isinstance(b, Choice) else [(True, b)]
        alts = [(zand(cond, zbool(g)), v) for g, v in aa] + [(zand(znot(cond), zbool(g)), v) for g, v in bb]
        if all(not is_z3(v) and not isinstance(v, (list, dict, SymList)) for _, v in alts):
            return (Choice(alts),)
        return None

    def e_Compare(self, frame, node):
        left = self.eval(frame, node.left)
        res = None
        for op, rnode in zip(node.ops, node.comparators):
            right = self.eval(frame, rnode)
            o = CMPOPS[type(op)]
            if left is OPAQUE or right is OPAQUE:
                raise Unsupported("comparison with dropped text")
            r = self.ops.compare(o, left, right, self.where(frame, node))
            res = r if res is None else zand(zbool(res), zbool(r))
            left = right
        if not isinstance(res, bool):
            c = tobool_const(res)
            if c is not None:
                return c
        return res

    def e_Attribute(self, frame, node):
        base = self.eval(frame, node.value)
        return self.getattr(base, node.attr, frame, node)

    def getattr(self, base, attr, frame=None, node=None):
        if isinstance(base, Choice):
            return self.normalize_choice(base.map(lambda v: self.getattr(v, attr, frame, node)))
        if isinstance(base, Obj):
            if attr in base.attrs:
                return base.attrs[attr]
            if base.modinfo is not None:
                f = self.find_method(base.modinfo, base.cls, attr)
                if f is not None:
                    if self._is_property(f.node):
                        return self.call_funcref(f, [base], {}, frame, node)
                    return BoundMethod(base, f)
            raise PyRaise("AttributeError", self.where(frame, node) if frame else None)
        if isinstance(base, ModRef):
            if base.modinfo is not None:
                return self.module_global(base.modinfo, attr, node)
            return self.convert_external(getattr(base.live, attr))
        if isinstance(base, (list, dict, str, tuple, SymList, set, SymStr)):
            return BoundMethod(base, attr)
        if isinstance(base, ClassRef) and base.modinfo is not None:
            f = self.find_method(base.modinfo, base.name, attr)
            if f is not None:
                return f
        raise Unsupported("attribute %s of %r" % (attr, type(base).__name__))

    def _is_property(self, fnode):
        return any(isinstance(d, ast.Name) and d.id == "property" for d in fnode.decorator_list)

    def find_method(self, modinfo, cname, attr):
        """Method lookup through the (single-inheritance) class chain in the repository source."""
        seen = 0
        while modinfo is not None and cname in modinfo.classes and seen < 8:
            meths = modinfo.class_methods(cname)
            if attr in meths:
                return FuncRef(modinfo, meths[attr], "%s.%s.%s" % (modinfo.name, cname, attr), cls=cname)
            bases = modinfo.classes[cname].bases
            if not bases or not isinstance(bases[0], ast.Name):
                return None
            bname = bases[0].id
            if bname in modinfo.classes:
                cname = bname
            elif bname in modinfo.imports:
                mname, a = modinfo.imports[bname]
                if not modinfo.repo.has_module(mname):
                    return None
                modinfo, cname = modinfo.repo.module(mname), a
            else:
                return None
            seen += 1
        return None

    def convert_external(self, v):
        if isinstance(v, (int, float, str, bool)) or v is None:
            return self.norm(v)
        if callable(v):
            return Builtin("ext:" + getattr(v, "__module__", "?") + "." + getattr(v, "__name__", "?")) \
                if not hasattr(self, "_ext") else v
        raise Unsupported("external value %r" % (v,))

    def normalize_choice(self, ch):
        """Flatten nested choices; collapse numeric choices to ITE terms."""
        alts = []
        for g, v in ch.alts:
            if isinstance(v, Choice):
                for g2, v2 in v.alts:
                    alts.append((zand(zbool(g), zbool(g2)), v2))
            else:
                alts.append((g, v))
        ch = Choice(alts)
        if alts and all(v is OPQ for _, v in alts):
            return OPQ
        if self.ops._choice_is_num(ch):
            return self.ops._num_choice(ch)
        if all(isinstance(v, tuple) for _, v in alts) and len({len(v) for _, v in alts}) == 1:
            n = len(alts[0][1])
            return tuple(self.normalize_choice(Choice([(g, v[i]) for g, v in alts])) for i in range(n))
        return ch

    def e_Subscript(self, frame, node):
        base = self.eval(frame, node.value)
        w = self.where(frame, node)
        if isinstance(node.slice, ast.Slice):
            lo = self.eval(frame, node.slice.lower) if node.slice.lower is not None else None
            hi = self.eval(frame, node.slice.upper) if node.slice.upper is not None else None
            st = self.eval(frame, node.slice.step) if node.slice.step is not None else None
            if isinstance(base, (list, tuple, str)) and all(x is None or is_pyint(x) for x in (lo, hi, st)):
                return base[slice(lo, hi, st)]
            if isinstance(base, SymStr) and all(x is None or is_pyint(x) for x in (lo, hi, st)):
                return SymStr(base.chars[slice(lo, hi, st)])
            raise Unsupported("slice at %s" % w)
        idx = self.eval(frame, node.slice)
        return self.index(base, idx, w)

    def index(self, base, idx, w):
        ops = self.ops
        if isinstance(base, Choice):
            return self.normalize_choice(base.map(lambda v: self.index(v, idx, w)))
        if isinstance(base, dict):
            if is_z3(idx):
                raise Unsupported("symbolic dict key at %s" % w)
            if idx not in base:
                raise PyRaise("KeyError", w)
            return base[idx]
        if isinstance(base, (list, tuple, str)):
            if isinstance(idx, bool):
                idx = int(idx)
            if is_pyint(idx):
                if not (-len(base) <= idx < len(base)):
                    raise PyRaise("IndexError", w)
                return base[idx]
            if ops.is_symint(idx) or is_zbool(idx):
                idx = ops.lift_int(idx)
                n = len(base)
                inr = zand(idx >= ops.int_const(0), idx < ops.int_const(n))
                # negative indices are legal Python but outside the accepted subset: obligation
                self.ctx.guard_error(idx >= ops.int_const(n), "IndexError", w)
                from . import ranges
                ri = ranges.rng(idx) if z3.is_bv(idx) else None
                if not (ri is not None and ri[0] >= 0):
                    self.ctx.oblige("safety:index-non-negative@" + w, idx >= ops.int_const(0), w, "safety")
                if n == 0:
                    raise Killed()
                return self.normalize_choice(Choice([(idx == ops.int_const(i), base[i]) for i in range(n)]))
            raise Unsupported("index %r at %s" % (idx, w))
        if isinstance(base, SymList):
            idx = ops.lift_int(idx)
            if self.ctx.nofork:
                t = z3.Select(base.arr, idx)      # logical read inside a specification formula
                if self.ctx.qreads is not None:
                    self.ctx.qreads.append((t, idx))
                return t
            if self.ctx.branch(idx >= base.length, w):
                raise PyRaise("IndexError", w)
            self.ctx.oblige("safety:index-non-negative@" + w, idx >= ops.int_const(0), w, "safety")
            return z3.Select(base.arr, idx)
        raise Unsupported("subscript of %r at %s" % (type(base).__name__, w))

    def e_ListComp(self, frame, node):
        return self._comprehension(frame, node, list)

    def e_GeneratorExp(self, frame, node):
        return self._comprehension(frame, node, list)

    def _comprehension(self, frame, node, kind):
        if len(node.generators) != 1:
            raise Unsupported("nested comprehension")
        gen = node.generators[0]
        it = self.eval(frame, gen.iter)
        items = self.concrete_iter(it, self.where(frame, node))
        out = []
        saved = dict(frame.locals)
        for x in items:
            self.assign(frame, gen.target, x)
            ok = True
            for cond in gen.ifs:
                if not self.ctx.branch(self.ops.truth(self.eval(frame, cond)), self.where(frame, node)):
                    ok = False
                    break
            if ok:
                out.append(self.eval(frame, node.elt))
        frame.locals.clear()
        frame.locals.update(saved)
        return out

    def concrete_iter(self, it, w):
        if isinstance(it, (list, tuple)):
            return list(it)
        if isinstance(it, range):
            if len(it) > 4096:
                raise Unsupported("UNSUPPORTED %s: a loop of %d iterations cannot be unrolled; it needs an invariant" % (w, len(it)))
            return list(it)
        if isinstance(it, dict):
            return list(it.keys())
        raise Unsupported("iteration over %s with no loop contract at %s" % (type(it).__name__, w))

    def e_Lambda(self, frame, node):
        raise Unsupported("lambda at %s" % self.where(frame, node))

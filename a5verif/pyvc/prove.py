"""Tasks, VC discharge (z3, cvc5 fall-back), model extraction."""
import os
import re
import subprocess
import tempfile
import time
import traceback
import z3

from .ctx import Explorer, Settings, PyRaise, Killed
from .values import Unsupported, zand, zbool, is_z3
from .src import ShapeMismatch

CVC5_BIN = "/usr/bin/cvc5"


class VCResult:
    def __init__(self, name, status, solver, seconds, where=None, kind=None, model=None, path_id=None, reason=None):
        self.name = name
        self.status = status          # 'valid' | 'invalid' | 'unknown'
        self.solver = solver
        self.seconds = seconds
        self.where = where
        self.kind = kind
        self.model = model            # dict input name -> python value (for 'invalid')
        self.path_id = path_id
        self.reason = reason

    def to_json(self):
        return {k: getattr(self, k) for k in ("name", "status", "solver", "seconds", "where", "kind", "model",
                                              "path_id", "reason")}


def model_value(m, v):
    """z3 model value of an input variable as a Python value."""
    try:
        r = m.eval(v, model_completion=True)
        if z3.is_bv_value(r):
            return r.as_signed_long()
        if z3.is_int_value(r):
            return r.as_long()
        if z3.is_true(r):
            return True
        if z3.is_false(r):
            return False
        if z3.is_rational_value(r):
            return "%s/%s" % (r.numerator_as_long(), r.denominator_as_long())
        return str(r)
    except Exception as e:       # pragma: no cover
        return "?%s" % e


def smt2_of(pc, goal):
    s = z3.Solver()
    s.add(pc)
    s.add(z3.Not(goal))
    return s.to_smt2()


def cvc5_check(smt2, timeout_s):
    """Returns 'unsat' | 'sat' | 'unknown' using the cvc5 binary on the SMT-LIB2 text."""
    if not os.path.exists(CVC5_BIN):
        return "unknown"
    with tempfile.NamedTemporaryFile("w", suffix=".smt2", delete=False, dir=os.environ.get("A5VERIF_TMP")) as f:
        # z3 prints (set-info :status ...) lines cvc5 accepts; logic ALL for safety
        f.write("(set-logic ALL)\n" + smt2)
        path = f.name
    try:
        p = subprocess.run([CVC5_BIN, "--tlimit=%d" % int(timeout_s * 1000), path], capture_output=True, text=True,
                           timeout=timeout_s + 10)
        out = p.stdout.strip().splitlines()
        for line in out:
            if line.strip() in ("unsat", "sat", "unknown"):
                return line.strip()
        return "unknown"
    except subprocess.TimeoutExpired:
        return "unknown"
    finally:
        os.unlink(path)


def _conjuncts(e, out):
    if z3.is_and(e):
        for c in e.children():
            _conjuncts(c, out)
    else:
        out.append(e)
    return out


def _has_quant(e, seen=None):
    seen = seen if seen is not None else set()
    if e.get_id() in seen:
        return False
    seen.add(e.get_id())
    if z3.is_quantifier(e):
        return True
    return any(_has_quant(c, seen) for c in e.children())


def _select_indices(e, out, seen):
    if e.get_id() in seen:
        return
    seen.add(e.get_id())
    if z3.is_quantifier(e):
        return
    if z3.is_app(e):
        if e.decl().kind() == z3.Z3_OP_SELECT:
            idx = e.arg(1)
            if not any(z3.eq(idx, o) for o in out):
                out.append(idx)
        elif e.decl().kind() == z3.Z3_OP_UNINTERPRETED and e.num_args() == 1:
            idx = e.arg(0)
            if not any(z3.eq(idx, o) for o in out):
                out.append(idx)
        for c in e.children():
            _select_indices(c, out, seen)


_AC_CACHE = {}
_KEEP = []


def array_consts_of(e):
    k = e.get_id()
    if k not in _AC_CACHE:
        _AC_CACHE[k] = frozenset(_array_consts(e, set(), set()))
        _KEEP.append(e)
    return _AC_CACHE[k]


_HQ_CACHE = {}


def has_quant_cached(e):
    k = e.get_id()
    if k not in _HQ_CACHE:
        _HQ_CACHE[k] = _has_quant(e)
        _KEEP.append(e)
    return _HQ_CACHE[k]


def _array_consts(e, out, seen):
    if e.get_id() in seen:
        return out
    seen.add(e.get_id())
    if z3.is_const(e) and e.decl().kind() == z3.Z3_OP_UNINTERPRETED and z3.is_array(e):
        out.add(e.get_id())
    if z3.is_quantifier(e):
        _array_consts(e.body(), out, seen)
    else:
        for c in e.children():
            _array_consts(c, out, seen)
    return out


_SK = [0]


def _consts(e, out, seen):
    if e.get_id() in seen:
        return out
    seen.add(e.get_id())
    if z3.is_quantifier(e):
        _consts(e.body(), out, seen)
    elif z3.is_app(e):
        if e.num_args() == 0 and e.decl().kind() == z3.Z3_OP_UNINTERPRETED:
            out.add(e.get_id())
        for c in e.children():
            _consts(c, out, seen)
    return out


_CONSTS_CACHE = {}


def consts_of(e):
    k = e.get_id()
    if k not in _CONSTS_CACHE:
        _CONSTS_CACHE[k] = frozenset(_consts(e, set(), set()))
        _KEEP.append(e)
    return _CONSTS_CACHE[k]


def quick_instantiate(pc, goal, timeout_ms, rounds=2):
    """Sound, incomplete pre-pass: skolemise a universally quantified goal, keep the hypotheses in the goal's cone of
    influence, instantiate the universally quantified ones at the index terms (array indices, arguments of
    uninterpreted functions) that occur in the goal and the quantifier-free hypotheses - twice, so that terms created
    by the first round are used too - drop the quantifiers and decide the quantifier-free rest.  Only `unsat` is used."""
    hyps = _conjuncts(pc, [])
    goals = _conjuncts(goal, [])
    deadline = time.time() + timeout_ms / 1000.0
    for g in goals:
        g0 = g
        if z3.is_quantifier(g) and g.is_forall() and g.num_vars() == 1:
            _SK[0] += 1
            sk = z3.Const("sk!%d" % _SK[0], g.var_sort(0))
            g0 = z3.substitute_vars(g.body(), sk)
        if _has_quant(g0):
            return False
        extra = []
        while z3.is_implies(g0):
            extra.extend(_conjuncts(g0.arg(0), []))
            g0 = g0.arg(1)
        # cone of influence over uninterpreted constants
        rel = set(consts_of(g0))
        for h in extra:
            rel |= consts_of(h)
        chosen = []
        pending = list(hyps)
        changed = True
        while changed:
            changed = False
            rest_p = []
            for h in pending:
                ch = consts_of(h)
                if (ch & rel) or not ch:
                    chosen.append(h)
                    if not ch <= rel:
                        rel |= ch
                        changed = True
                else:
                    rest_p.append(h)
            pending = rest_p
        qh = [h for h in chosen if z3.is_quantifier(h) and h.is_forall() and h.num_vars() == 1]
        qf = [h for h in chosen if not has_quant_cached(h)]
        base = qf + extra
        insts = []
        seen_inst = set()
        for _round in range(rounds):
            terms = []
            seen = set()
            _select_indices(g0, terms, seen)
            for h in base + insts:
                _select_indices(h, terms, seen)
            terms = terms[:40]
            new = []
            for q in qh:
                for t in terms:
                    if t.sort() == q.var_sort(0):
                        key = (q.get_id(), t.get_id())
                        if key not in seen_inst:
                            seen_inst.add(key)
                            new.append(z3.substitute_vars(q.body(), t))
            if not new:
                break
            insts.extend(new)
        parts = _conjuncts(g0, [])
        for part in parts:
            s = z3.Solver()
            s.set("timeout", max(1000, int((deadline - time.time()) * 1000)))
            for h in base:
                s.add(h)
            for h in insts:
                s.add(h)
            s.add(z3.Not(part))
            tq = time.time()
            rq = s.check()
            if os.environ.get("A5VERIF_TRACE2"):
                print("   [part %.2fs %s] insts=%d hyps=%d %s" % (time.time() - tq, rq, len(insts), len(base), str(part)[:80].replace("\n", " ")), flush=True)
            if rq != z3.unsat:
                return False
    return True


_DUMPN = [0]


def discharge(ob, inputs, timeout_ms, use_cvc5=True, both=False):
    t0 = time.time()
    if os.environ.get("A5VERIF_DUMP") and os.environ["A5VERIF_DUMP_MATCH"] in ob.name:
        _DUMPN[0] += 1
        with open(os.path.join(os.environ["A5VERIF_DUMP"], "vc%03d.smt2" % _DUMPN[0]), "w") as f:
            f.write("; %s\n" % ob.name + smt2_of(ob.pc, ob.goal))
    if any(has_quant_cached(h) for h in _conjuncts(ob.pc, [])) or _has_quant(ob.goal):
        try:
            ok = quick_instantiate(ob.pc, ob.goal, min(timeout_ms, 30000))
        except z3.Z3Exception:
            ok = False
        if os.environ.get("A5VERIF_TRACE"):
            print("[inst %.2fs %s] %s" % (time.time() - t0, ok, ob.name), flush=True)
        if ok:
            return VCResult(ob.name, "valid", "z3-inst", time.time() - t0, ob.where, ob.kind, path_id=ob.path_id)
    s = z3.Solver()
    s.set("timeout", timeout_ms)
    s.add(ob.pc)
    s.add(z3.Not(ob.goal))
    r = s.check()
    dt = time.time() - t0
    if os.environ.get("A5VERIF_TRACE"):
        print("[vc %.2fs %s] %s" % (dt, r, ob.name), flush=True)
    if r == z3.unsat:
        if both:
            # second opinion, best effort: cvc5 1.0.3 is slow on some wide bit-vector VCs that z3 closes at once
            c = cvc5_check(smt2_of(ob.pc, ob.goal), min(timeout_ms / 1000.0, 20.0))
            if c == "sat":
                return VCResult(ob.name, "unknown", "z3:unsat/cvc5:sat", time.time() - t0, ob.where, ob.kind,
                                path_id=ob.path_id, reason="solvers disagree")
            return VCResult(ob.name, "valid", "z3+cvc5" if c == "unsat" else "z3(cvc5:unknown)", time.time() - t0,
                            ob.where, ob.kind, path_id=ob.path_id)
        return VCResult(ob.name, "valid", "z3", dt, ob.where, ob.kind, path_id=ob.path_id)
    if r == z3.sat:
        m = s.model()
        model = {k: model_value(m, v) for k, v in inputs.items()}
        return VCResult(ob.name, "invalid", "z3", dt, ob.where, ob.kind, model=model, path_id=ob.path_id)
    reason = s.reason_unknown()
    if use_cvc5:
        c = cvc5_check(smt2_of(ob.pc, ob.goal), timeout_ms / 1000.0)
        dt = time.time() - t0
        if c == "unsat":
            return VCResult(ob.name, "valid", "cvc5", dt, ob.where, ob.kind, path_id=ob.path_id)
        if c == "sat":
            # no model extraction through the binary: re-ask z3 for a model with a longer budget
            return VCResult(ob.name, "invalid", "cvc5", dt, ob.where, ob.kind, model=None, path_id=ob.path_id)
    return VCResult(ob.name, "unknown", "z3", time.time() - t0, ob.where, ob.kind, path_id=ob.path_id, reason=reason)


class TaskOutcome:
    def __init__(self, name):
        self.name = name
        self.vcs = []             # VCResult
        self.paths = 0
        self.returns = 0
        self.raises = 0
        self.status = "ok"        # ok | unsupported | shape-mismatch | error
        self.message = None
        self.seconds = 0.0
        self.solver_seconds = 0.0
        self.branch_checks = 0
        self.meta = {}

    def to_json(self):
        return {"name": self.name, "status": self.status, "message": self.message, "paths": self.paths,
                "returns": self.returns, "raises": self.raises, "seconds": round(self.seconds, 3),
                "solver_seconds": round(self.solver_seconds, 3), "branch_checks": self.branch_checks,
                "vcs": [v.to_json() for v in self.vcs], "meta": self.meta}


def _domain_expr(expr, inputs):
    """Known-finding domain: a Python expression over the task's input variables."""
    env = dict(inputs)
    env.update({"And": z3.And, "Or": z3.Or, "Not": z3.Not})
    return eval(expr, {"__builtins__": {}}, env)


def run_task(name, fn, settings=None, timeout_ms=60000, both=False, min_return_paths=1, known=()):
    """fn(ctx) -> dict of input variables (name -> z3 var) is called once per path.

    fn builds symbolic inputs, runs repository code through the interpreter and adds obligations.
    It returns (inputs) on normal completion of a path.
    """
    out = TaskOutcome(name)
    t0 = time.time()
    ex = Explorer(settings or Settings())
    inputs_seen = {}

    def task(ctx):
        inp = fn(ctx)
        if isinstance(inp, dict):
            inputs_seen.update(inp)
        return None

    try:
        results = ex.explore(task)
    except Unsupported as e:
        out.status, out.message = "unsupported", str(e)
        out.seconds = time.time() - t0
        return out
    except ShapeMismatch as e:
        out.status, out.message = "shape-mismatch", str(e)
        out.seconds = time.time() - t0
        return out
    except Exception as e:
        tb = traceback.extract_tb(e.__traceback__)
        last = tb[-1] if tb else None
        if isinstance(e, (KeyError, IndexError)) and last is not None and os.sep + "checks" + os.sep in last.filename:
            # a ghost script of the harness (state recorded per loop iteration / per position) looked up something the
            # code no longer produces: the proof script does not fit the code - nothing is proved, nothing refuted
            out.status = "shape-mismatch"
            out.message = "CONTRACT-SHAPE-MISMATCH ghost script at %s:%d does not fit the code (%s: %s)" % (
                os.path.basename(last.filename), last.lineno, type(e).__name__, e)
        else:
            out.status, out.message = "error", "%s: %s\n%s" % (type(e).__name__, e, traceback.format_exc())
        out.seconds = time.time() - t0
        return out
    out.paths = ex.n_paths
    out.returns = sum(1 for r in results if r.kind == "return")
    out.raises = sum(1 for r in results if r.kind == "raise")
    out.branch_checks = ex.branch_checks
    out.meta["side_conditions_discharged_by_interval_analysis"] = getattr(ex, "range_discharged", 0)
    if out.raises:
        # an exception escaping the harness is never silently accepted
        for r in results:
            if r.kind == "raise":
                ex.obligations.append(type("O", (), dict(name="uncaught:%s" % r.value, pc=r.pc, goal=z3.BoolVal(False),
                                                         where=r.where, kind="uncaught", path_id=r.path_id, extra=None))())
    if out.returns < min_return_paths:
        out.status, out.message = "error", "vacuous: %d completed paths (< %d)" % (out.returns, min_return_paths)
    # discharge, de-duplicating syntactically identical VCs
    cache = {}
    n_bad = 0
    second_opinion_budget = 90.0      # seconds of cvc5 per task in the thorough tier; afterwards z3 alone
    for ob in ex.obligations:
        if n_bad >= 8 and ob.kind != "cover":
            # the task has already failed: the remaining VCs are not worth their time-outs
            out.vcs.append(VCResult(name + "/" + ob.name, "unknown", "skipped", 0.0, ob.where, ob.kind, path_id=ob.path_id,
                                    reason="skipped after %d undischarged VCs in this task" % n_bad))
            continue
        if n_bad >= 1:
            timeout_ms = min(timeout_ms, 8000)
        key = (ob.pc.get_id(), ob.goal.get_id())
        if key in cache:
            prev = cache[key]
            out.vcs.append(VCResult(name + "/" + ob.name, prev.status, prev.solver + "(dup)", 0.0, ob.where, ob.kind,
                                    prev.model, ob.path_id, prev.reason))
            continue
        full = name + "/" + ob.name
        if ob.kind == "cover":
            # reachability: the path condition (quantifier-free part) must be satisfiable
            sc = z3.Solver()
            sc.set("timeout", 10000)
            for h in _conjuncts(ob.pc, []):
                if not has_quant_cached(h):
                    sc.add(h)
            tc = time.time()
            rc = sc.check()
            if rc == z3.sat and any(has_quant_cached(h) for h in _conjuncts(ob.pc, [])):
                sf = z3.Solver()
                sf.set("timeout", 5000)
                sf.add(ob.pc)
                if sf.check() == z3.unsat:      # the quantified assumptions contradict each other / the path
                    rc = z3.unsat
            # only a refutation (the assumptions are contradictory) is a failure; a time-out is not
            st = "invalid" if rc == z3.unsat else "valid"
            out.vcs.append(VCResult(full, st, "z3" if rc != z3.unknown else "z3(cover not refuted: unknown)", time.time() - tc, ob.where, "cover", path_id=ob.path_id,
                                    reason="contradictory assumptions: nothing is reachable here" if rc == z3.unsat else None))
            continue
        kf = None
        for k in known:
            if re.fullmatch(k["obligation"], full):
                kf = k
                break
        if kf is not None:
            # domain split: outside the finding's domain the VC must be valid; inside it is expected to fail
            dom = _domain_expr(kf["domain"], inputs_seen)
            pc0 = ob.pc
            ob.pc = z3.And(pc0, z3.Not(dom))
            r = discharge(ob, inputs_seen, timeout_ms, both=both)
            ob.pc = z3.And(pc0, dom)
            r2 = discharge(ob, inputs_seen, timeout_ms, both=False)
            ob.pc = pc0
            out.solver_seconds += r.seconds + r2.seconds
            r.name = full
            out.vcs.append(r)
            if r2.status == "invalid":
                r2.status = "known"
                r2.reason = kf["id"]
                r2.name = full + "[known-finding-domain]"
                out.vcs.append(r2)
            continue
        tq = time.time()
        use_both = both and n_bad == 0 and second_opinion_budget > 0
        r = discharge(ob, inputs_seen, timeout_ms, use_cvc5=(n_bad == 0), both=use_both)
        if use_both:
            second_opinion_budget -= (time.time() - tq)
        out.solver_seconds += r.seconds
        cache[key] = r
        r.name = full
        out.vcs.append(r)
        if r.status != "valid":
            n_bad += 1
    if out.status == "error" and (out.message or "").startswith("vacuous"):
        # no path completed because every path left the integer/index model (a no-wrap / index side condition fails
        # and the path is cut there): nothing is proved and nothing is refuted - the body is outside the subset
        lim = [v for v in out.vcs if v.status != "valid" and re.search(r"/safety:(no-wrap|shift-count-in-model|index-non-negative|positive-divisor|non-negative-exponent|non-negative-repeat)", v.name)]
        if lim:
            out.status, out.message = "unsupported", "UNSUPPORTED every path leaves the integer/index model at %s (%s)" % (lim[0].where, lim[0].name)
        else:
            # an obligation that fails for EVERY input makes the rest of its path unreachable (obligations are assumed
            # once stated): the missing completed path is then a consequence of that failed obligation, which is
            # reported on its own, and not a vacuous harness
            refuted = [v for v in out.vcs if v.status == "invalid" and v.kind != "cover"]
            if refuted:
                out.status, out.message = "ok", "no path completes beyond the refuted obligation %s" % refuted[0].name
    out.seconds = time.time() - t0
    return out

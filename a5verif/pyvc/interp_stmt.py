"""Statements, loops and calls of the symbolic interpreter (mixin)."""
import ast
import copy
import math
from fractions import Fraction
import z3

from .values import (Choice, SymList, Obj, OPAQUE, Unsupported, is_z3, is_bv, is_zint, is_zreal, is_zbool, is_fp,
                     is_pyint, zand, zor, znot, zbool, tobool_const)
from .ctx import PyRaise, Killed, NoFork, Explorer, Ctx
from .src import loops_of, ShapeMismatch
from .interp_expr import FuncRef, ClassRef, ModRef, BoundMethod, Builtin, UF


_DEPTH = {}
_DEPTH_KEEP = []


def term_depth(t, limit=12):
    """Depth of a z3 term, saturating at `limit` (memoised by AST id)."""
    k = t.get_id()
    if k in _DEPTH:
        return _DEPTH[k]
    if not z3.is_app(t) or t.num_args() == 0:
        d = 0
    else:
        d = 0
        for c in t.children():
            d = max(d, term_depth(c, limit))
            if d >= limit:
                break
        d = min(limit, d + 1)
    if len(_DEPTH) > 100000:
        _DEPTH.clear()
        del _DEPTH_KEEP[:]
    _DEPTH[k] = d
    _DEPTH_KEEP.append(t)
    return d


class _Return(Exception):
    def __init__(self, value):
        self.value = value


class _Break(Exception):
    pass


class _Continue(Exception):
    pass


class Frame:
    def __init__(self, modinfo, fnode, qual, locals_):
        self.modinfo = modinfo
        self.fnode = fnode
        self.qual = qual
        self.locals = locals_
        self.loops = loops_of(fnode) if fnode is not None else []


class StmtMixin:
    # ------------------------------------------------------------------ statements
    def exec_block(self, frame, stmts):
        for s in stmts:
            self.exec_stmt(frame, s)

    def exec_stmt(self, frame, s):
        m = getattr(self, "s_" + type(s).__name__, None)
        if m is None:
            raise Unsupported("UNSUPPORTED %s %s" % (self.where(frame, s), type(s).__name__))
        return m(frame, s)

    def s_Expr(self, frame, s):
        if isinstance(s.value, ast.Constant):
            return      # docstring
        self.eval(frame, s.value)

    def s_Pass(self, frame, s):
        pass

    def s_Global(self, frame, s):
        raise Unsupported("global statement at %s" % self.where(frame, s))

    def s_Assign(self, frame, s):
        v = self.eval(frame, s.value)
        for t in s.targets:
            self.assign(frame, t, v)

    def s_AnnAssign(self, frame, s):
        if s.value is not None:
            self.assign(frame, s.target, self.eval(frame, s.value))

    def s_AugAssign(self, frame, s):
        from .interp_expr import BINOPS
        tgt = s.target
        load = copy.copy(tgt)
        load.ctx = ast.Load()
        cur = self.eval(frame, load)
        v = self.eval(frame, s.value)
        r = self.ops.binop(BINOPS[type(s.op)], cur, v, self.where(frame, s))
        self.assign(frame, tgt, r)

    def name_term(self, v, hint="t"):
        """Give a deep bit-vector term a name: a fresh constant with a defining equation in the path condition
        (conservative), so that later terms and VCs stay small.  Interval facts carry over to the name."""
        if not ((is_bv(v) or is_zreal(v)) and self.ctx.settings.name_deep_terms) or self.ctx.nofork or getattr(self, "naming_off", False):
            return v
        if term_depth(v) <= self.ctx.settings.name_deep_terms:
            return v
        from . import ranges
        if is_zreal(v):
            nr = z3.Real(self.ctx.fresh_name("let_" + hint))
            self.ctx.pc.append(nr == v)
            return nr
        nv = z3.BitVec(self.ctx.fresh_name("let_" + hint), v.size())
        r = ranges.rng(v)
        self.ctx.pc.append(nv == v)
        if r is not None:
            ranges.BOUNDS[nv.get_id()] = r
            ranges._KEEP.append(nv)
        return nv

    def assign(self, frame, target, v):
        if isinstance(target, ast.Name):
            frame.locals[target.id] = self.name_term(v, target.id)
            return
        if isinstance(target, (ast.Tuple, ast.List)):
            vals = self.unpack(v, len(target.elts), self.where(frame, target))
            for t, x in zip(target.elts, vals):
                self.assign(frame, t, x)
            return
        if isinstance(target, ast.Subscript):
            base = self.eval(frame, target.value)
            idx = self.eval(frame, target.slice)
            self.store_index(base, idx, v, self.where(frame, target))
            return
        if isinstance(target, ast.Attribute):
            base = self.eval(frame, target.value)
            if isinstance(base, Obj):
                self.check_not_shared(base, self.where(frame, target))
                base.attrs[target.attr] = v
                return
        raise Unsupported("assignment target %s at %s" % (type(target).__name__, self.where(frame, target)))

    def note_write(self, obj, key):
        pass

    def unpack(self, v, n, w):
        if isinstance(v, Choice):
            v = self.normalize_choice(v)
        if isinstance(v, (tuple, list)):
            if len(v) != n:
                raise PyRaise("ValueError", w)
            return list(v)
        if isinstance(v, Choice):
            raise Unsupported("unpacking a choice at %s" % w)
        raise Unsupported("unpacking %r at %s" % (type(v).__name__, w))

    def store_index(self, base, idx, v, w):
        ops = self.ops
        self.check_not_shared(base, w)
        if isinstance(base, dict):
            if is_z3(idx):
                raise Unsupported("symbolic dict key")
            base[idx] = v
            return
        if isinstance(base, list):
            if is_pyint(idx):
                if not (-len(base) <= idx < len(base)):
                    raise PyRaise("IndexError", w)
                base[idx] = self.name_term(v, "elem")
                return
            if ops.is_symint(idx):
                n = len(base)
                if self.ctx.branch(idx >= ops.int_const(n), w):
                    raise PyRaise("IndexError", w)
                self.ctx.oblige("safety:index-non-negative@" + w, idx >= ops.int_const(0), w, "safety")
                for i in range(n):
                    m = self.merge_values(idx == ops.int_const(i), v, base[i])
                    if m is None:
                        raise Unsupported("symbolic store of unmergeable value at %s" % w)
                    base[i] = m[0]
                return
        if isinstance(base, SymList):
            idx = ops.lift_int(idx)
            if self.ctx.branch(idx >= base.length, w):
                raise PyRaise("IndexError", w)
            self.ctx.oblige("safety:index-non-negative@" + w, idx >= ops.int_const(0), w, "safety")
            base.arr = z3.Store(base.arr, idx, ops.lift_int(v))
            return
        if isinstance(base, tuple):
            raise PyRaise("TypeError", w)
        raise Unsupported("store into %r at %s" % (type(base).__name__, w))

    def s_Return(self, frame, s):
        raise _Return(self.eval(frame, s.value) if s.value is not None else None)

    def s_Raise(self, frame, s):
        exc = s.exc
        name = None
        if isinstance(exc, ast.Call) and isinstance(exc.func, ast.Name):
            name = exc.func.id          # message arguments are not evaluated (text dropped)
        elif isinstance(exc, ast.Name):
            name = exc.id
        if name is None:
            raise Unsupported("raise form at %s" % self.where(frame, s))
        raise PyRaise(name, self.where(frame, s))

    def s_Assert(self, frame, s):
        t = self.ops.truth(self.eval(frame, s.test))
        if not self.ctx.branch(t, self.where(frame, s)):
            raise PyRaise("AssertionError", self.where(frame, s))

    def s_Break(self, frame, s):
        raise _Break()

    def s_Continue(self, frame, s):
        raise _Continue()

    def s_If(self, frame, s):
        t = self.ops.truth(self.eval(frame, s.test))
        if self.ctx.branch(t, self.where(frame, s)):
            self.exec_block(frame, s.body)
        else:
            self.exec_block(frame, s.orelse)

    # ------------------------------------------------------------------ loops
    def loop_contract(self, frame, s):
        c = self.registry.get(frame.qual) if frame.qual else None
        if c is None:
            return None, None
        try:
            k = frame.loops.index(s)
        except ValueError:
            return None, None
        return c.loops.get(k), k

    def check_loop_shape(self, qual, fnode):
        c = self.registry.get(qual)
        if c is None:
            return
        n = len(loops_of(fnode))
        for k in c.loops:
            if k >= n:
                raise ShapeMismatch("CONTRACT-SHAPE-MISMATCH %s: contract names loop %d, function has %d loops"
                                    % (qual, k, n))

    def s_While(self, frame, s):
        if s.orelse:
            raise Unsupported("while-else at %s" % self.where(frame, s))
        lc, k = self.loop_contract(frame, s)
        w = self.where(frame, s)
        if lc is not None and lc.invariants():
            return self.invariant_loop(frame, s, lc, k, None)
        bound = lc.unroll if (lc is not None and lc.unroll) else self.ctx.settings.default_unroll
        n = 0
        while True:
            t = self.ops.truth(self.eval(frame, s.test))
            if self.ctx.settings.float_mode == "opaque" and is_zbool(t) and str(t).startswith("nondet"):
                # a loop steered by abstracted floats: its body may run any number of times.  Everything it assigns is
                # havocked (only abstracted floats may be assigned; anything else is outside the subset) and the loop
                # is left - partial correctness, termination is not proved (A5)
                from .values import OPQ as _O
                names, mutated = self.assigned_names(s.body)
                if mutated:
                    raise Unsupported("loop on abstracted floats mutates a container at %s" % w)
                for nm in names:
                    cur = frame.locals.get(nm, _O)
                    if not (cur is _O or isinstance(cur, float)):
                        raise Unsupported("loop on abstracted floats assigns the non-float %s at %s" % (nm, w))
                    frame.locals[nm] = _O
                return
            c = t if isinstance(t, bool) else tobool_const(t)
            if n >= bound:
                # unwinding assertion: the loop condition is false after `bound` iterations
                self.ctx.oblige("%s/loop%s/unwind(%d)" % (frame.qual, k if k is not None else "@" + w, bound),
                                znot(zbool(t)), w, "unwind")
                return
            if not self.ctx.branch(t, w):
                return
            n += 1
            try:
                self.exec_block(frame, s.body)
            except _Break:
                return
            except _Continue:
                continue

    def s_For(self, frame, s):
        if s.orelse:
            raise Unsupported("for-else at %s" % self.where(frame, s))
        lc, k = self.loop_contract(frame, s)
        it = self.eval(frame, s.iter)
        w = self.where(frame, s)
        if isinstance(it, SymRange) or isinstance(it, SymList) or isinstance(it, SymEnumerate):
            if lc is None or not lc.invariants():
                raise Unsupported("loop over a symbolic range/list needs an invariant: %s loop %s at %s" % (frame.qual, k, w))
            return self.invariant_loop(frame, s, lc, k, it)
        if lc is not None and lc.invariants():
            # a contract is given: use the Hoare rule even though this instance could be unrolled
            if isinstance(it, range) and it.step == 1:
                return self.invariant_loop(frame, s, lc, k, SymRange(it.start, it.stop))
            if isinstance(it, list) and all(self.ops.is_intlike(x) for x in it):
                return self.invariant_loop(frame, s, lc, k, self.to_symlist(it))
            raise ShapeMismatch("CONTRACT-SHAPE-MISMATCH %s loop %s: invariant given but the iterable is %s" % (frame.qual, k, type(it).__name__))
        items = self.concrete_iter(it, w)
        hook = getattr(self, "loop_hooks", {}).get((frame.qual, k if k is not None else (frame.loops.index(s) if s in frame.loops else None)))
        for x in items:
            self.assign(frame, s.target, x)
            if hook:
                hook(self, frame, x, "pre")       # ghost code of the sidecar contract: snapshots, assertions
            try:
                self.exec_block(frame, s.body)
            except _Break:
                break
            except _Continue:
                if hook:
                    hook(self, frame, x, "post")
                continue
            if hook:
                hook(self, frame, x, "post")

    def assigned_names(self, stmts):
        names = set()
        mutated = set()

        class V(ast.NodeVisitor):
            def visit_Name(v, n):
                if isinstance(n.ctx, ast.Store):
                    names.add(n.id)

            def visit_Subscript(v, n):
                if isinstance(n.ctx, ast.Store) and isinstance(n.value, ast.Name):
                    mutated.add(n.value.id)
                v.generic_visit(n)

            def visit_Call(v, n):
                if isinstance(n.func, ast.Attribute) and isinstance(n.func.value, ast.Name) and \
                        n.func.attr in ("append", "extend", "reverse", "sort", "pop", "insert", "clear"):
                    mutated.add(n.func.value.id)
                v.generic_visit(n)

            def visit_FunctionDef(v, n):
                pass

        for st in stmts:
            V().visit(st)
        return names, mutated

    def havoc_value(self, name, v):
        ops = self.ops
        if isinstance(v, bool) or is_zbool(v):
            return z3.Bool(self.ctx.fresh_name(name))
        if ops.is_intlike(v):
            return ops.int_var(self.ctx.fresh_name(name))
        if isinstance(v, SymList) or (isinstance(v, list) and all(ops.is_intlike(x) for x in v)):
            # (a concrete-length int list that the loop grows becomes a symbolic-length list)
            ln = ops.int_var(self.ctx.fresh_name(name + "$len"))
            self.ctx.assume(ln >= ops.int_const(0))       # type invariant of lists
            return SymList(z3.Array(self.ctx.fresh_name(name + "$arr"), ops.int_sort(), ops.int_sort()), ln)
        if v is None:
            return None
        raise Unsupported("cannot havoc %s of type %s" % (name, type(v).__name__))

    def to_symlist(self, v):
        """A concrete-length int list viewed as (array, length)."""
        ops = self.ops
        if isinstance(v, SymList):
            return v
        arr = z3.K(ops.int_sort(), ops.int_const(0))
        for i, x in enumerate(v):
            arr = z3.Store(arr, ops.int_const(i), ops.lift_int(x))
        return SymList(arr, ops.int_const(len(v)))

    def invariant_loop(self, frame, s, lc, k, it):
        """Hoare rule: init, havoc, assume invariant, (guard: body, preservation, stop) | exit."""
        ctx, ops = self.ctx, self.ops
        w = self.where(frame, s)
        base = "%s/loop%d" % (frame.qual, k)
        names, mutated = self.assigned_names(s.body)
        if isinstance(s, ast.For):
            tn, _ = self.assigned_names([ast.Assign(targets=[s.target], value=ast.Constant(0))])
            names |= tn
        counter = lc.counter or "_it%d" % k
        zero = ops.int_const(0)
        # lists that the body mutates are modelled as symbolic-length lists from here on
        for nm in sorted(mutated):
            if nm in frame.locals and isinstance(frame.locals[nm], list):
                frame.locals[nm] = self.to_symlist(frame.locals[nm])
        for nm in lc.havoc_extra:
            names.add(nm)
        pre_state = dict(frame.locals)
        if it is not None:
            frame.locals[counter] = zero
        # ghost initialisation
        if lc.ghost_init:
            self.exec_ghost(frame, lc.ghost_init)
        # 1. invariant holds on entry
        old = {("old_" + n): v for n, v in pre_state.items()}
        for label, expr in lc.invariants():
            g = self.eval_formula(expr, dict(frame.locals, **old))
            ctx.oblige("%s/%s/init" % (base, label), g, w, "invariant-init", assume_after=False)
        # 2. havoc everything the body may change
        targets = set(names) | set(mutated) | ({counter} if it is not None else set())
        if lc.ghost_init:
            gn, gm = self.assigned_names(ast.parse(lc.ghost_init).body)
            targets |= gn | gm
        for nm in sorted(targets):
            if nm in frame.locals:
                frame.locals[nm] = self.havoc_value(nm, frame.locals[nm])
        # variables first assigned inside the body are simply undefined at loop head
        for label, expr in lc.invariants():
            ctx.assume(self.eval_formula(expr, dict(frame.locals, **old)))
        # 3. guard
        if it is None:
            t = self.ops.truth(self.eval(frame, s.test))
            enter = ctx.branch(t, w)
        else:
            n_iter = self.iter_length(it)
            cnt = frame.locals[counter]
            ctx.assume(zand(cnt >= zero, cnt <= n_iter))
            enter = ctx.branch(cnt < n_iter, w)
            if enter:
                self.assign(frame, s.target, self.iter_item(it, cnt, w))
        if not enter:
            return
        broke = False
        try:
            self.exec_block(frame, s.body)
        except _Break:
            broke = True
        except _Continue:
            pass
        if broke:
            return      # leaves the loop with the state at the break
        if it is not None:
            frame.locals[counter] = ops.binop("+", frame.locals[counter], 1, w)
        if lc.ghost_step:
            self.exec_ghost(frame, lc.ghost_step)
        for label, expr in lc.invariants():
            g = self.eval_formula(expr, dict(frame.locals, **old))
            ctx.oblige("%s/%s/preserved" % (base, label), g, w, "invariant-preservation", assume_after=False)
        raise Killed()

    def exec_ghost(self, frame, code):
        tree = ast.parse(code)
        gframe = Frame(self.specs, None, None, frame.locals)
        gframe.modinfo = self.specs
        self.exec_block(gframe, tree.body)

    def iter_length(self, it):
        if isinstance(it, SymRange):
            return it.length(self.ops)
        if isinstance(it, SymEnumerate):
            return self.iter_length(it.inner)
        if isinstance(it, SymList):
            return it.length
        raise Unsupported("iter length")

    def iter_item(self, it, cnt, w):
        if isinstance(it, SymRange):
            return self.ops.binop("+", it.start, self.ops.binop("*", cnt, it.step, w), w) if it.step != 1 else \
                self.ops.binop("+", it.start, cnt, w)
        if isinstance(it, SymEnumerate):
            return (cnt, self.iter_item(it.inner, cnt, w))
        if isinstance(it, SymList):
            return z3.Select(it.arr, cnt)
        raise Unsupported("iter item")


class SymRange:
    def __init__(self, start, stop, step=1):
        self.start, self.stop, self.step = start, stop, step

    def length(self, ops):
        if self.step != 1:
            raise Unsupported("symbolic range with step")
        d = ops.lift_int(ops.binop("-", self.stop, self.start))
        return z3.If(d > ops.int_const(0), d, ops.int_const(0))


class SymEnumerate:
    def __init__(self, inner):
        self.inner = inner

"""Path context: decisions, path condition, obligations; exploration driver.

Exploration is by re-execution: a task (a Python callable taking a Ctx) is run once per path;
at a symbolic branch the context follows its decision prefix, and beyond the prefix asks the
solver which sides are feasible, queues the alternative and continues.  Mutable state therefore
never has to be copied between paths.
"""
import os
import time
import z3

TRACE = bool(os.environ.get('A5VERIF_TRACE'))

from .values import tobool_const, zand, znot, zbool, Unsupported
from . import ranges


_HQ = {}
_HQ_KEEP = []


def has_quant(e):
    k = e.get_id()
    if k not in _HQ:
        if z3.is_quantifier(e):
            _HQ[k] = True
        else:
            _HQ[k] = any(has_quant(c) for c in e.children())
        _HQ_KEEP.append(e)       # ids are recycled once a term is freed: keep it alive as long as the entry
        if len(_HQ_KEEP) > 200000:
            _HQ.clear()
            del _HQ_KEEP[:]
    return _HQ[k]


class PyRaise(Exception):
    """The interpreted program raised a Python exception of type `exc`."""

    def __init__(self, exc, where=None):
        Exception.__init__(self, exc)
        self.exc = exc
        self.where = where


class Killed(Exception):
    """Path ended by an assumption that is false / end of a preservation check."""


class NoFork(Exception):
    """Raised inside a speculative (merge) evaluation when a fork or obligation is needed."""


class Obligation:
    __slots__ = ("name", "pc", "goal", "where", "kind", "path_id", "extra")

    def __init__(self, name, pc, goal, where, kind, path_id, extra=None):
        self.name = name
        self.pc = pc
        self.goal = goal
        self.where = where
        self.kind = kind
        self.path_id = path_id
        self.extra = extra


class PathResult:
    def __init__(self, kind, value, pc, path_id, where=None):
        self.kind = kind        # 'return' | 'raise' | 'killed'
        self.value = value
        self.pc = pc
        self.path_id = path_id
        self.where = where


class Settings:
    def __init__(self, width=80, theory="bv", float_mode="concrete", branch_timeout_ms=20000,
                 max_paths=20000, default_unroll=64, name_deep_terms=0):
        self.name_deep_terms = name_deep_terms    # 0 = off; otherwise name bit-vector terms deeper than this
        self.width = width
        self.theory = theory
        self.float_mode = float_mode
        self.branch_timeout_ms = branch_timeout_ms
        self.max_paths = max_paths
        self.default_unroll = default_unroll


class Explorer:
    """Runs a task over all feasible paths and collects obligations."""

    def __init__(self, settings=None):
        self.settings = settings or Settings()
        self.solver = z3.Solver()
        self.solver.set("timeout", self.settings.branch_timeout_ms)
        self.obligations = []
        self.results = []
        self.n_paths = 0
        self.branch_checks = 0
        self.branch_time = 0.0
        self.unknown_branches = 0
        self.fresh_counter = 0
        self.ignore_prefix = 0      # feasibility checks skip this many leading path-condition conjuncts

    def explore(self, task):
        work = [[]]
        while work:
            prefix = work.pop()
            if self.n_paths >= self.settings.max_paths:
                raise Unsupported("path limit %d exceeded" % self.settings.max_paths)
            ctx = Ctx(self, prefix, self.n_paths)
            self.n_paths += 1
            try:
                val = task(ctx)
                self.results.append(PathResult("return", val, ctx.pc_expr(), ctx.path_id))
            except PyRaise as e:
                self.results.append(PathResult("raise", e.exc, ctx.pc_expr(), ctx.path_id, e.where))
            except Killed:
                self.results.append(PathResult("killed", None, ctx.pc_expr(), ctx.path_id))
            for alt in ctx.alternatives:
                work.append(alt)
        return self.results

    def feasible(self, pc_list, cond):
        t0 = time.time()
        # one-shot solver: z3 then selects the bit-blasting QF_BV tactic (the incremental core is ~10x slower here)
        s = z3.Solver()
        s.set("timeout", self.settings.branch_timeout_ms)
        for p in pc_list[self.ignore_prefix:]:
            # quantified hypotheses are dropped: feasibility is over-approximated, which is sound for proving
            if not has_quant(p):
                s.add(p)
        s.add(cond)
        r = s.check()
        self.branch_checks += 1
        self.branch_time += time.time() - t0
        if TRACE:
            print("[feasible %.2fs %s] %s" % (time.time() - t0, r, str(cond)[:100].replace("\n", " ")), flush=True)
        if r == z3.unknown:
            self.unknown_branches += 1
            return True    # keep the path: sound for proving (over-approximates feasible paths)
        return r == z3.sat


class Ctx:
    def __init__(self, explorer, prefix, path_id):
        self.ex = explorer
        self.settings = explorer.settings
        self.prefix = list(prefix)
        self.decisions = []
        self.pc = []
        self.alternatives = []
        self.path_id = path_id
        self.nofork = 0
        self.memo = {}          # per-path conversion memo for live module objects
        self.ghost = {}
        self.fresh_n = {}
        ranges.reset_bounds()    # interval facts are per path
        self.qreads = None      # array reads / uninterpreted applications seen while building a quantifier body
        self.sides = None       # definedness side conditions collected while evaluating a logical formula

    # -- naming -------------------------------------------------------------------------
    def fresh_name(self, base):
        n = self.fresh_n.get(base, 0)
        self.fresh_n[base] = n + 1
        return "%s!%d" % (base, n)

    def pc_expr(self):
        return zand(*self.pc)

    # -- assumptions / obligations --------------------------------------------------------
    def assume(self, cond):
        c = tobool_const(cond) if not isinstance(cond, bool) else cond
        if c is True:
            return
        if c is False:
            raise Killed()
        self.pc.append(cond)
        if not isinstance(cond, bool):
            ranges.learn(cond)

    def oblige(self, name, goal, where=None, kind="assert", extra=None, assume_after=True):
        if self.nofork:
            c = tobool_const(goal)
            if c is True:
                return
            if self.sides is not None:
                self.sides.append(zbool(goal))     # becomes a conjunct of the enclosing quantified formula
                return
            raise NoFork()
        goal = zbool(goal)
        if len(self.decisions) < len(self.prefix):
            # replaying the prefix shared with the path this one was forked from: that path already
            # recorded this obligation (same state, same formula)
            if assume_after:
                self.assume(goal)
            return
        self.ex.obligations.append(Obligation(name, self.pc_expr(), goal, where, kind, self.path_id, extra))
        if assume_after:
            self.assume(goal)

    def cover(self, name):
        """Vacuity guard: this point must be reachable, i.e. `False` must NOT be provable here."""
        if len(self.decisions) < len(self.prefix):
            return
        self.ex.obligations.append(Obligation("cover:" + name, self.pc_expr(), z3.BoolVal(False), None, "cover", self.path_id))

    def guard_error(self, cond, exc, where=None):
        """`if cond: raise exc` for run-time errors of primitive operations."""
        if isinstance(cond, bool):
            c = cond
        else:
            c = tobool_const(cond)
        if c is None:
            c = ranges.decide(z3.simplify(cond))
        if c is True:
            raise PyRaise(exc, where)
        if c is False:
            return
        if self.nofork and self.sides is not None:
            self.sides.append(z3.Not(cond))
            return
        if self.branch(cond, where):
            raise PyRaise(exc, where)

    # -- branching ----------------------------------------------------------------------
    def branch(self, cond, where=None):
        """Decide a (possibly symbolic) boolean; forks when both sides are feasible."""
        if isinstance(cond, bool):
            return cond
        c = tobool_const(cond)
        if c is not None:
            return c
        c = ranges.decide(z3.simplify(cond))
        if c is not None:
            return c
        if self.nofork:
            raise NoFork()
        k = len(self.decisions)
        if k < len(self.prefix):
            choice = self.prefix[k]
        else:
            t_ok = self.ex.feasible(self.pc, cond)
            f_ok = self.ex.feasible(self.pc, z3.Not(cond))
            if t_ok and f_ok:
                choice = True
                self.alternatives.append(self.decisions + [False])
            elif t_ok:
                choice = True
            elif f_ok:
                choice = False
            else:
                raise Killed()
        self.decisions.append(choice)
        self.pc.append(cond if choice else z3.Not(cond))
        ranges.learn(z3.simplify(cond if choice else z3.Not(cond)))
        return choice

"""Sound interval pre-analysis of bit-vector terms.

rng(t) returns (lo, hi) such that the SIGNED value of t lies in [lo, hi] in every model, or None.  The rules only
fire when the mathematical result fits the width, so that the bit-vector operation coincides with the mathematical one.
Used to discharge no-wrap / index obligations and to decide branch conditions of small-valued code (digits, flips)
without a solver call.  Every fact established here is a valid consequence; nothing is assumed."""
import z3

_MEMO = {}
_KEEP = []
BOUNDS = {}          # id of an uninterpreted constant -> (lo, hi) learned from assumptions (per process / path: see reset)


def reset_bounds():
    """Start of a path: drop every cached fact.  The caches are keyed by AST ids, which z3 recycles once a term is
    freed, so the memo, the kept references and the learned bounds must always be dropped together."""
    BOUNDS.clear()
    _MEMO.clear()
    del _KEEP[:]


def learn(cond):
    """Record x >= c, x > c, x <= c, x < c (signed) for an uninterpreted bit-vector constant x from an assumption."""
    if z3.is_and(cond):
        for c in cond.children():
            learn(c)
        return
    if not z3.is_app(cond) or cond.num_args() != 2:
        return
    k = cond.decl().kind()
    a, b = cond.arg(0), cond.arg(1)
    if not (z3.is_bv(a) and z3.is_bv(b)):
        return
    ops = {z3.Z3_OP_SLEQ: "le", z3.Z3_OP_SLT: "lt", z3.Z3_OP_SGEQ: "ge", z3.Z3_OP_SGT: "gt", z3.Z3_OP_EQ: "eq"}
    if k not in ops:
        return
    op = ops[k]
    if z3.is_bv_value(a) and not z3.is_bv_value(b):
        a, b = b, a
        op = {"le": "ge", "lt": "gt", "ge": "le", "gt": "lt", "eq": "eq"}[op]
    if not (z3.is_const(a) and a.decl().kind() == z3.Z3_OP_UNINTERPRETED and z3.is_bv_value(b)):
        return
    c = b.as_signed_long()
    w = a.size()
    lo, hi = BOUNDS.get(a.get_id(), (-(1 << (w - 1)), (1 << (w - 1)) - 1))
    if op == "le":
        hi = min(hi, c)
    elif op == "lt":
        hi = min(hi, c - 1)
    elif op == "ge":
        lo = max(lo, c)
    elif op == "gt":
        lo = max(lo, c + 1)
    else:
        lo, hi = max(lo, c), min(hi, c)
    BOUNDS[a.get_id()] = (lo, hi)
    _KEEP.append(a)
    _MEMO.clear()


def _fits(lo, hi, w):
    return -(1 << (w - 1)) <= lo and hi <= (1 << (w - 1)) - 1


def rng(t, depth=0):
    if not z3.is_bv(t):
        return None
    key = t.get_id()
    if key in _MEMO:
        return _MEMO[key]
    r = _rng(t, depth)
    _MEMO[key] = r
    _KEEP.append(t)          # keeps the term alive, so its id cannot be recycled while the memo entry exists
    return r


def _rng(t, depth):
    if depth > 60:
        return None
    w = t.size()
    if z3.is_bv_value(t):
        v = t.as_signed_long()
        return (v, v)
    if not z3.is_app(t):
        return None
    k = t.decl().kind()
    ch = t.children()
    if k == z3.Z3_OP_UNINTERPRETED and not ch:
        return BOUNDS.get(t.get_id())
    if k == z3.Z3_OP_ITE:
        a, b = rng(ch[1], depth + 1), rng(ch[2], depth + 1)
        if a is None or b is None:
            return None
        return (min(a[0], b[0]), max(a[1], b[1]))
    if k in (z3.Z3_OP_BADD, z3.Z3_OP_BSUB, z3.Z3_OP_BMUL):
        rs = [rng(c, depth + 1) for c in ch]
        if any(r is None for r in rs):
            return None
        lo, hi = rs[0]
        for r in rs[1:]:
            if k == z3.Z3_OP_BADD:
                lo, hi = lo + r[0], hi + r[1]
            elif k == z3.Z3_OP_BSUB:
                lo, hi = lo - r[1], hi - r[0]
            else:
                ps = (lo * r[0], lo * r[1], hi * r[0], hi * r[1])
                lo, hi = min(ps), max(ps)
            if not _fits(lo, hi, w):
                return None
        return (lo, hi)
    if k == z3.Z3_OP_BNEG:
        r = rng(ch[0], depth + 1)
        if r is None or not _fits(-r[1], -r[0], w):
            return None
        return (-r[1], -r[0])
    if k in (z3.Z3_OP_BSREM, z3.Z3_OP_BSREM_I):
        a, b = rng(ch[0], depth + 1), rng(ch[1], depth + 1)
        if b is None or b[0] != b[1] or b[0] <= 0:
            return None
        c = b[0]
        if a is not None and a[0] >= 0:
            return (0, min(a[1], c - 1))
        return (-(c - 1), c - 1)
    if k in (z3.Z3_OP_BSDIV, z3.Z3_OP_BSDIV_I):
        a, b = rng(ch[0], depth + 1), rng(ch[1], depth + 1)
        if a is None or b is None or b[0] != b[1] or b[0] <= 0:
            return None
        c = b[0]

        def tdiv(x):
            return -((-x) // c) if x < 0 else x // c
        return (tdiv(a[0]), tdiv(a[1]))
    if k == z3.Z3_OP_BAND:
        rs = [rng(c, depth + 1) for c in ch]
        pos = [r for r in rs if r is not None and r[0] >= 0]
        if pos:
            return (0, min(r[1] for r in pos))
        return None
    if k == z3.Z3_OP_BASHR:
        a, b = rng(ch[0], depth + 1), rng(ch[1], depth + 1)
        if a is None or b is None or b[0] != b[1] or b[0] < 0:
            return None
        return (a[0] >> b[0], a[1] >> b[0])
    if k == z3.Z3_OP_BSHL:
        a, b = rng(ch[0], depth + 1), rng(ch[1], depth + 1)
        if a is None or b is None or b[0] != b[1] or b[0] < 0 or b[0] >= w:
            return None
        lo, hi = a[0] << b[0], a[1] << b[0]
        return (lo, hi) if _fits(lo, hi, w) else None
    return None


def decide(cond):
    """True / False if the Boolean term is decided by the ranges of its operands, else None."""
    if z3.is_true(cond):
        return True
    if z3.is_false(cond):
        return False
    if not z3.is_app(cond):
        return None
    k = cond.decl().kind()
    ch = cond.children()
    if k == z3.Z3_OP_NOT:
        r = decide(ch[0])
        return None if r is None else (not r)
    if k == z3.Z3_OP_AND:
        rs = [decide(c) for c in ch]
        if any(r is False for r in rs):
            return False
        if all(r is True for r in rs):
            return True
        return None
    if k == z3.Z3_OP_OR:
        rs = [decide(c) for c in ch]
        if any(r is True for r in rs):
            return True
        if all(r is False for r in rs):
            return False
        return None
    if k == z3.Z3_OP_IMPLIES:
        a, b = decide(ch[0]), decide(ch[1])
        if a is False or b is True:
            return True
        if a is True and b is False:
            return False
        return None
    if len(ch) == 2 and z3.is_bv(ch[0]) and z3.is_bv(ch[1]):
        a, b = rng(ch[0]), rng(ch[1])
        if a is None or b is None:
            return None
        if k == z3.Z3_OP_SLT:
            return True if a[1] < b[0] else (False if a[0] >= b[1] else None)
        if k == z3.Z3_OP_SLEQ:
            return True if a[1] <= b[0] else (False if a[0] > b[1] else None)
        if k == z3.Z3_OP_SGT:
            return True if a[0] > b[1] else (False if a[1] <= b[0] else None)
        if k == z3.Z3_OP_SGEQ:
            return True if a[0] >= b[1] else (False if a[1] < b[0] else None)
        if k == z3.Z3_OP_EQ:
            if a[1] < b[0] or b[1] < a[0]:
                return False
            if a[0] == a[1] == b[0] == b[1]:
                return True
            return None
    return None

"""Arithmetic / comparison semantics of the accepted Python subset over symbolic values."""
from fractions import Fraction
import z3

from .values import (OPQ, OpaqueFloat, Choice, SymList, Obj, Unsupported, is_z3, is_bv, is_zint, is_zreal, is_zbool, is_fp,
                     is_pyint, zand, zor, znot, zbool, tobool_const)
from .ctx import PyRaise, NoFork
from . import ranges


class Ops:
    def __init__(self, ctx):
        self.ctx = ctx
        self.s = ctx.settings
        self.W = ctx.settings.width

    # ---- construction -------------------------------------------------------------------
    def int_const(self, n):
        if self.s.theory == "bv":
            return z3.BitVecVal(n, self.W)
        return z3.IntVal(n)

    def int_var(self, name):
        if self.s.theory == "bv":
            return z3.BitVec(name, self.W)
        return z3.Int(name)

    def int_sort(self):
        return z3.BitVecSort(self.W) if self.s.theory == "bv" else z3.IntSort()

    def is_symint(self, v):
        return is_bv(v) or is_zint(v)

    def is_intlike(self, v):
        return is_pyint(v) or isinstance(v, bool) or self.is_symint(v)

    def lift_int(self, v):
        if isinstance(v, bool):
            return self.int_const(int(v))
        if is_pyint(v):
            if self.s.theory == "bv" and not (-(1 << (self.W - 1)) <= v < (1 << (self.W - 1))):
                raise Unsupported("integer constant %d does not fit the %d-bit model" % (v, self.W))
            return self.int_const(v)
        if self.is_symint(v):
            return v
        if is_zbool(v):
            return z3.If(v, self.int_const(1), self.int_const(0))
        if isinstance(v, Choice):
            return self.choice_to_int(v)
        raise Unsupported("not an int: %r" % (v,))

    def choice_to_int(self, ch):
        alts = ch.alts
        out = self.lift_int(alts[-1][1])
        for g, v in reversed(alts[:-1]):
            out = z3.If(g, self.lift_int(v), out)
        return out

    def choice_to_real(self, ch):
        alts = ch.alts
        out = self.lift_real(alts[-1][1])
        for g, v in reversed(alts[:-1]):
            out = z3.If(g, self.lift_real(v), out)
        return out

    def lift_real(self, v):
        if isinstance(v, bool):
            v = int(v)
        if isinstance(v, (int, Fraction)):
            f = Fraction(v)
            return z3.RealVal(str(f.numerator)) / z3.RealVal(str(f.denominator)) if f.denominator != 1 else z3.RealVal(str(f.numerator))
        if isinstance(v, float):
            return self.lift_real(Fraction(v))
        if is_zreal(v):
            return v
        if is_zint(v):
            return z3.ToReal(v)
        if is_bv(v):
            return z3.ToReal(z3.BV2Int(v, is_signed=True))
        if isinstance(v, Choice):
            return self.choice_to_real(v)
        raise Unsupported("not a real: %r" % (v,))

    def is_realish(self, v):
        return isinstance(v, Fraction) or is_zreal(v) or (isinstance(v, float) and self.s.float_mode == "real")

    def norm_float(self, v):
        """Python float constant entering the symbolic world."""
        if isinstance(v, float):
            if self.s.float_mode == "real":
                return Fraction(v)
            if self.s.float_mode == "fp":
                return z3.FPVal(v, z3.Float64())
            if self.s.float_mode == "opaque":
                return OPQ
        return v

    # ---- truthiness -----------------------------------------------------------------------
    def truth(self, v):
        """Python truth value as bool or z3 Bool."""
        if isinstance(v, bool):
            return v
        if v is OPQ:
            return z3.Bool(self.ctx.fresh_name("nondet"))
        if v is None:
            return False
        if is_zbool(v):
            return v
        if is_pyint(v) or isinstance(v, (float, Fraction)):
            return v != 0
        if self.is_symint(v):
            return v != self.int_const(0)
        if is_zreal(v):
            return v != 0
        if isinstance(v, (list, tuple, str, dict)):
            return len(v) > 0
        if isinstance(v, SymList):
            return v.length != self.int_const(0)
        if isinstance(v, Choice):
            return zor(*[zand(g, zbool(self.truth(x))) for g, x in v.alts])
        if isinstance(v, Obj):
            return True
        raise Unsupported("truth value of %r" % (type(v),))

    # ---- binary operators -------------------------------------------------------------------
    def binop(self, op, a, b, where=None):
        ctx = self.ctx
        if a is OPQ or b is OPQ:
            if op in ("+", "-", "*", "/", "//", "%", "**"):
                return OPQ
            raise Unsupported("operator %s on an abstracted float at %s" % (op, where))
        if self.s.float_mode == "opaque" and op in ("/", "**") and is_pyint(a) and is_pyint(b):
            try:
                return a / b if op == "/" else a ** b      # computed from integers only: kept (e.g. 2 ** (6 - resolution))
            except ZeroDivisionError:
                raise PyRaise("ZeroDivisionError", where)
        if isinstance(a, Choice) and not isinstance(b, Choice) and not self._choice_is_num(a):
            raise Unsupported("binary operator on non-numeric choice")
        a = self._num_choice(a)
        b = self._num_choice(b)
        # fully concrete
        if not is_z3(a) and not is_z3(b):
            return self.concrete_binop(op, a, b, where)
        if is_fp(a) or is_fp(b):
            return self.fp_binop(op, a, b)
        if self.is_realish(a) or self.is_realish(b) or isinstance(a, float) or isinstance(b, float):
            if self.s.float_mode != "real":
                raise Unsupported("symbolic float arithmetic outside real mode at %s" % (where,))
            return self.real_binop(op, a, b, where)
        if op == "/":
            if self.s.float_mode == "real":
                return self.real_binop(op, a, b, where)
            raise Unsupported("true division of symbolic ints at %s" % (where,))
        if is_zbool(a) or is_zbool(b) or self.is_symint(a) or self.is_symint(b):
            return self.int_binop(op, self.lift_int(a), self.lift_int(b), where, a, b)
        raise Unsupported("binop %s on %r, %r" % (op, type(a), type(b)))

    def _choice_is_num(self, ch):
        return all(isinstance(v, (int, float, Fraction)) or is_z3(v) for _, v in ch.alts)

    def _num_choice(self, v):
        if isinstance(v, Choice) and self._choice_is_num(v):
            if any(isinstance(x, (float, Fraction)) or is_zreal(x) for _, x in v.alts):
                return self.choice_to_real(v)
            return self.choice_to_int(v)
        return v

    def concrete_binop(self, op, a, b, where):
        a = self.norm_float(a)
        b = self.norm_float(b)
        try:
            if op == "+":
                return a + b
            if op == "-":
                return a - b
            if op == "*":
                return a * b
            if op == "/":
                if isinstance(a, (int, Fraction)) and isinstance(b, (int, Fraction)) and self.s.float_mode == "real":
                    return Fraction(a) / Fraction(b)
                return a / b
            if op == "//":
                return a // b
            if op == "%":
                return a % b
            if op == "**":
                r = a ** b
                return self.norm_float(r) if isinstance(r, float) else r
            if op == "<<":
                return a << b
            if op == ">>":
                return a >> b
            if op == "&":
                return a & b
            if op == "|":
                return a | b
            if op == "^":
                return a ^ b
        except ZeroDivisionError:
            raise PyRaise("ZeroDivisionError", where)
        except ValueError:
            raise PyRaise("ValueError", where)
        except OverflowError:
            raise PyRaise("OverflowError", where)
        raise Unsupported("operator %s" % op)

    def int_binop(self, op, a, b, where, oa=None, ob=None):
        ctx = self.ctx
        if self.s.theory == "int":
            return self.zint_binop(op, a, b, where)
        W = self.W
        tag = "%s" % (where,)
        if op in ("+", "-", "*"):
            # interval pre-analysis: when the mathematical result provably fits, the no-wrap obligation holds
            ra, rb = ranges.rng(a), ranges.rng(b)
            if ra is not None and rb is not None:
                if op == "+":
                    lo, hi = ra[0] + rb[0], ra[1] + rb[1]
                elif op == "-":
                    lo, hi = ra[0] - rb[1], ra[1] - rb[0]
                else:
                    ps = (ra[0] * rb[0], ra[0] * rb[1], ra[1] * rb[0], ra[1] * rb[1])
                    lo, hi = min(ps), max(ps)
                if -(1 << (W - 1)) <= lo and hi <= (1 << (W - 1)) - 1:
                    ctx.ex.range_discharged = getattr(ctx.ex, "range_discharged", 0) + 1
                    if op == "*":
                        # multiplier-free encodings (the product provably does not wrap)
                        for x, y, rx in ((a, b, ra), (b, a, rb)):
                            if rx[0] >= -1 and rx[1] <= 1:
                                one, mone = self.int_const(1), self.int_const(-1)
                                return z3.If(x == one, y, z3.If(x == mone, -y, self.int_const(0)))
                            if rx[0] == rx[1] and rx[0] > 0 and (rx[0] & (rx[0] - 1)) == 0:
                                return y << self.int_const(rx[0].bit_length() - 1)
                        return z3.simplify(a * b, push_ite_bv=True) if self._small_ite(a) and self._small_ite(b) else a * b
                    return a + b if op == "+" else a - b
        if op == "+":
            ctx.oblige("safety:no-wrap:add@" + tag, zand(z3.BVAddNoOverflow(a, b, True), z3.BVAddNoUnderflow(a, b)), where, "safety")
            return a + b
        if op == "-":
            ctx.oblige("safety:no-wrap:sub@" + tag, zand(z3.BVSubNoOverflow(a, b), z3.BVSubNoUnderflow(a, b, True)), where, "safety")
            return a - b
        if op == "*":
            ca = z3.simplify(a)
            cb = z3.simplify(b)
            if z3.is_bv_value(ca) or z3.is_bv_value(cb):
                # constant factor: the no-wrap condition is a range check on the other operand
                c, x = (ca.as_signed_long(), b) if z3.is_bv_value(ca) else (cb.as_signed_long(), a)
                lo, hi = -(1 << (W - 1)), (1 << (W - 1)) - 1
                if c == 0:
                    cond = True
                elif c > 0:
                    cond = zand(x >= z3.BitVecVal(-((-lo) // c), W), x <= z3.BitVecVal(hi // c, W))
                else:
                    cond = zand(x >= z3.BitVecVal(-(hi // -c), W), x <= z3.BitVecVal((-lo) // -c, W))
                ctx.oblige("safety:no-wrap:mul@" + tag, cond, where, "safety")
                return a * b
            ctx.oblige("safety:no-wrap:mul@" + tag, zand(z3.BVMulNoOverflow(a, b, True), z3.BVMulNoUnderflow(a, b)), where, "safety")
            return z3.simplify(a * b, push_ite_bv=True) if self._small_ite(a) and self._small_ite(b) else a * b
        if op in ("//", "%"):
            zero = self.int_const(0)
            ctx.guard_error(b == zero, "ZeroDivisionError", where)
            ctx.oblige("safety:positive-divisor@" + tag, b > zero, where, "safety")
            # floor semantics for a positive divisor
            ra = ranges.rng(a)
            if ra is not None and ra[0] >= 0:
                return z3.SRem(a, b) if op == "%" else a / b      # non-negative dividend: truncation = floor
            r = z3.SRem(a, b)
            neg = r < zero
            if op == "%":
                return z3.If(neg, r + b, r)
            q = a / b   # signed division, truncating
            return z3.If(neg, q - self.int_const(1), q)
        if op == "<<":
            zero = self.int_const(0)
            ctx.guard_error(b < zero, "ValueError", where)      # negative shift count
            rb = ranges.rng(b)
            if not (rb is not None and rb[1] < W):
                ctx.oblige("safety:shift-count-in-model@" + tag, b < self.int_const(W), where, "safety")
            res = a << b
            rr = ranges.rng(res)
            if rr is None:
                ctx.oblige("safety:no-wrap:shl@" + tag, (res >> b) == a, where, "safety")
            return res
        if op == ">>":
            zero = self.int_const(0)
            ctx.guard_error(b < zero, "ValueError", where)
            return a >> b      # arithmetic shift = floor division by 2**b, saturating for b >= W
        if op == "&":
            return a & b
        if op == "|":
            return a | b
        if op == "^":
            return a ^ b
        if op == "**":
            # only constant power-of-two bases
            if is_pyint(oa) and oa > 0 and (oa & (oa - 1)) == 0:
                k = oa.bit_length() - 1
                zero = self.int_const(0)
                ctx.oblige("safety:non-negative-exponent@" + tag, b >= zero, where, "safety")
                if k == 0:
                    return self.int_const(1)
                e = self.int_binop("*", self.int_const(k), b, where)
                return self.int_binop("<<", self.int_const(1), e, where)
            raise Unsupported("** with a base that is not a constant power of two at %s" % (where,))
        raise Unsupported("int operator %s" % op)

    def _small_ite(self, e):
        return z3.is_app(e) and (e.decl().kind() == z3.Z3_OP_ITE or z3.is_bv_value(e))

    def zint_binop(self, op, a, b, where):
        ctx = self.ctx
        if op == "+":
            return a + b
        if op == "-":
            return a - b
        if op == "*":
            return a * b
        if op in ("//", "%"):
            ctx.guard_error(b == 0, "ZeroDivisionError", where)
            ctx.oblige("safety:positive-divisor@%s" % (where,), b > 0, where, "safety")
            return a / b if op == "//" else a % b     # z3 Int div/mod are floor for positive divisor
        raise Unsupported("operator %s in the Int theory at %s" % (op, where))

    def real_binop(self, op, a, b, where):
        ctx = self.ctx
        if op in ("+", "-", "*"):
            a, b = self.lift_real(a), self.lift_real(b)
            return a + b if op == "+" else a - b if op == "-" else a * b
        if op == "/":
            a, b = self.lift_real(a), self.lift_real(b)
            ctx.guard_error(b == 0, "ZeroDivisionError", where)
            return a / b
        raise Unsupported("real operator %s at %s" % (op, where))

    def fp_binop(self, op, a, b):
        rm = z3.RNE()
        a, b = self.lift_fp(a), self.lift_fp(b)
        if op == "+":
            return z3.fpAdd(rm, a, b)
        if op == "-":
            return z3.fpSub(rm, a, b)
        if op == "*":
            return z3.fpMul(rm, a, b)
        if op == "/":
            return z3.fpDiv(rm, a, b)
        raise Unsupported("fp operator %s" % op)

    def lift_fp(self, v):
        if is_fp(v):
            return v
        if isinstance(v, (int, float)) and not isinstance(v, bool):
            return z3.FPVal(float(v), z3.Float64())
        if is_bv(v):
            return z3.fpSignedToFP(z3.RNE(), v, z3.Float64())
        raise Unsupported("not an fp value: %r" % (v,))

    # ---- unary --------------------------------------------------------------------------------
    def neg(self, a, where=None):
        if a is OPQ:
            return OPQ
        a = self._num_choice(a)
        if not is_z3(a):
            return -a
        if is_zreal(a):
            return -a
        if is_fp(a):
            return z3.fpNeg(a)
        return self.binop("-", 0, a, where)

    # ---- comparisons ----------------------------------------------------------------------------
    def compare(self, op, a, b, where=None):
        """Returns bool or z3 Bool."""
        if op in ("is", "is not"):
            r = self.identity(a, b)
            return r if op == "is" else znot(r)
        if op in ("in", "not in"):
            r = self.contains(b, a, where)
            return r if op == "in" else znot(r)
        if a is OPQ or b is OPQ:
            # comparison of abstracted floats: a fresh, unconstrained Boolean (both outcomes are explored)
            return z3.Bool(self.ctx.fresh_name("nondet"))
        if op in ("==", "!="):
            r = self.equal(a, b)
            return r if op == "==" else znot(r)
        a = self._num_choice(a)
        b = self._num_choice(b)
        if not is_z3(a) and not is_z3(b):
            if not (self.s.float_mode == "opaque"):
                a, b = self.norm_float(a), self.norm_float(b)
            return {"<": a < b, "<=": a <= b, ">": a > b, ">=": a >= b}[op]
        if is_fp(a) or is_fp(b):
            a, b = self.lift_fp(a), self.lift_fp(b)
            return {"<": z3.fpLT(a, b), "<=": z3.fpLEQ(a, b), ">": z3.fpGT(a, b), ">=": z3.fpGEQ(a, b)}[op]
        if self.is_realish(a) or self.is_realish(b) or isinstance(a, float) or isinstance(b, float):
            a, b = self.lift_real(a), self.lift_real(b)
        else:
            a, b = self.lift_int(a), self.lift_int(b)
        return {"<": a < b, "<=": a <= b, ">": a > b, ">=": a >= b}[op]

    def identity(self, a, b):
        if a is None or b is None:
            if isinstance(a, Choice) or isinstance(b, Choice):
                ch = a if isinstance(a, Choice) else b
                return zor(*[g for g, v in ch.alts if v is None])
            return a is None and b is None
        if is_z3(a) or is_z3(b):
            return self.equal(a, b)
        return a is b

    def equal(self, a, b):
        if isinstance(a, Choice) or isinstance(b, Choice):
            if isinstance(a, Choice) and self._choice_is_num(a):
                a = self._num_choice(a)
            if isinstance(b, Choice) and self._choice_is_num(b):
                b = self._num_choice(b)
        if isinstance(a, Choice) and isinstance(b, Choice):
            return zor(*[zand(g1, g2, zbool(self.equal(v1, v2))) for g1, v1 in a.alts for g2, v2 in b.alts])
        if isinstance(a, Choice):
            return zor(*[zand(g, zbool(self.equal(v, b))) for g, v in a.alts])
        if isinstance(b, Choice):
            return self.equal(b, a)
        if not is_z3(a) and not is_z3(b):
            if isinstance(a, (tuple, list)) and isinstance(b, (tuple, list)):
                if type(a) is not type(b) or len(a) != len(b):
                    return False
                return zand(*[zbool(self.equal(x, y)) for x, y in zip(a, b)]) if a else True
            if isinstance(a, Obj) or isinstance(b, Obj):
                if isinstance(a, Obj) and isinstance(b, Obj) and a.modinfo is None and b.modinfo is None:
                    # converted namedtuples compare by value
                    if a.cls != b.cls:
                        return False
                    return zand(*[zbool(self.equal(a.attrs[k], b.attrs[k])) for k in a.attrs])
                return a is b
            if isinstance(a, dict) and isinstance(b, dict):
                if set(a) != set(b):
                    return False
                return zand(*[zbool(self.equal(a[k], b[k])) for k in a])
            if isinstance(a, float) or isinstance(b, float):
                a, b = self.norm_float(a), self.norm_float(b)
            return a == b
        if a is None or b is None:
            return False
        if isinstance(a, (str, tuple, list, dict, Obj)) or isinstance(b, (str, tuple, list, dict, Obj)):
            return False
        if is_zbool(a) and is_zbool(b):
            return a == b
        if is_zbool(a) and isinstance(b, bool):
            return a if b else z3.Not(a)
        if is_zbool(b) and isinstance(a, bool):
            return b if a else z3.Not(b)
        if is_fp(a) or is_fp(b):
            return z3.fpEQ(self.lift_fp(a), self.lift_fp(b))
        if self.is_realish(a) or self.is_realish(b) or isinstance(a, float) or isinstance(b, float):
            return self.lift_real(a) == self.lift_real(b)
        return self.lift_int(a) == self.lift_int(b)

    def contains(self, container, item, where=None):
        if isinstance(container, (tuple, list)):
            return zor(*[zbool(self.equal(item, x)) for x in container]) if container else False
        if isinstance(container, (set, frozenset, dict)):
            if is_z3(item) or isinstance(item, Choice):
                return zor(*[zbool(self.equal(item, x)) for x in container]) if container else False
            return item in container
        if isinstance(container, str) and isinstance(item, str):
            return item in container
        raise Unsupported("'in' on %r at %s" % (type(container), where))

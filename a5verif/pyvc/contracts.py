"""Sidecar contract objects.  Contracts never live in /repo; they are keyed by module-qualified
function name and, for loops, by loop ordinal in source order inside that function."""


class LoopContract:
    def __init__(self, invariant=None, unroll=None, counter=None, ghost_init=None, ghost_step=None,
                 havoc_extra=(), name=None, decreases=None):
        self.invariant = invariant      # list of (label, expression string) or a single string
        self.unroll = unroll            # int: unroll this many times + unwinding assertion
        self.counter = counter          # name under which the hidden iteration counter is visible
        self.ghost_init = ghost_init
        self.ghost_step = ghost_step
        self.havoc_extra = tuple(havoc_extra)
        self.name = name

    def invariants(self):
        if self.invariant is None:
            return []
        if isinstance(self.invariant, str):
            return [("inv", self.invariant)]
        return list(self.invariant)


class Contract:
    def __init__(self, qualname, params=None, requires=(), ensures=(), raises=None, loops=None,
                 result_type="int", inline=False, merged=False, pure=True, note="", logical_result=None):
        self.logical_result = logical_result
        self.qualname = qualname
        self.params = params or {}                 # name -> type tag ('int','bool','cell','intlist','optint',...)
        self.requires = _labelled(requires, "pre")
        self.ensures = _labelled(ensures, "post")
        self.raises = raises or {}                 # exc type -> condition expression string ("iff")
        self.loops = loops or {}                   # ordinal -> LoopContract
        self.result_type = result_type
        self.inline = inline
        self.merged = merged
        self.note = note


def _labelled(x, base):
    if isinstance(x, str):
        return [(base, x)]
    out = []
    for i, e in enumerate(x):
        if isinstance(e, str):
            out.append(("%s%d" % (base, i), e))
        else:
            out.append((e[0], e[1]))
    return out


class Registry:
    def __init__(self):
        self.contracts = {}
        self.merged_calls = set()     # qualnames inlined with merged (ITE) summaries
        self.specs_source = None

    def add(self, c):
        self.contracts[c.qualname] = c
        return c

    def get(self, qual):
        return self.contracts.get(qual)

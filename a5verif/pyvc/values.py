"""Value layer of the symbolic interpreter.

Python ints are W-bit signed bit-vectors (theory 'bv') with a no-wrap obligation per
arithmetic operation, or z3 Ints (theory 'int', used for loop-level proofs where the bit-level
spec functions are uninterpreted).  Floats are exact rationals / z3 Reals in float mode 'real',
FP(11,53) in mode 'fp', and plain Python floats (concrete only) otherwise.
"""
from fractions import Fraction
import z3


class Unsupported(Exception):
    """Construct outside the accepted subset: the run is undecided (exit 2)."""


class Choice:
    """A value ranging over finitely many concrete (non-int) Python values, with guards.

    Guards are mutually exclusive and exhaustive under the path condition.
    """

    def __init__(self, alts):
        self.alts = list(alts)

    def map(self, f):
        return Choice([(g, f(v)) for g, v in self.alts])


class SymList:
    """List of ints with symbolic length: (array, length)."""

    _n = 0

    def __init__(self, arr, length):
        self.arr = arr
        self.length = length


class SymStr:
    """String of known length whose characters are code points (concrete ints or symbolic ints)."""

    def __init__(self, chars):
        self.chars = list(chars)

    def __len__(self):
        return len(self.chars)


class Obj:
    """Instance of a repository class (or converted namedtuple): class info + attribute dict."""

    def __init__(self, cls, attrs, modinfo=None):
        self.cls = cls            # class name
        self.modinfo = modinfo    # ModuleInfo holding the class AST (None for namedtuples)
        self.attrs = attrs

    def __repr__(self):
        return "Obj(%s,%r)" % (self.cls, self.attrs)


class OpaqueFloat:
    """Float whose value is abstracted away (float mode 'opaque', used for shape-only contracts): arithmetic on it
    gives an opaque float again, comparisons are non-deterministic."""

    def __repr__(self):
        return "<float?>"


OPQ = OpaqueFloat()


class Opaque:
    """Value whose content is dropped by the extraction (exception message text)."""

    def __repr__(self):
        return "<opaque>"


OPAQUE = Opaque()


def is_z3(v):
    return isinstance(v, z3.ExprRef)


def is_bv(v):
    return isinstance(v, z3.BitVecRef)


def is_zint(v):
    return isinstance(v, z3.ArithRef) and v.is_int()


def is_zreal(v):
    return isinstance(v, z3.ArithRef) and v.is_real()


def is_zbool(v):
    return isinstance(v, z3.BoolRef)


def is_fp(v):
    return isinstance(v, z3.FPRef)


def is_pyint(v):
    return isinstance(v, int) and not isinstance(v, bool)


def ssimp(e):
    return z3.simplify(e)


def tobool_const(e):
    """Return True/False if the z3 Bool simplifies to a constant, else None."""
    if isinstance(e, bool):
        return e
    s = z3.simplify(e)
    if z3.is_true(s):
        return True
    if z3.is_false(s):
        return False
    return None


def zand(*xs):
    xs = [x for x in xs if not (isinstance(x, bool) and x)]
    if any(isinstance(x, bool) and not x for x in xs):
        return z3.BoolVal(False)
    if not xs:
        return z3.BoolVal(True)
    if len(xs) == 1:
        return xs[0]
    return z3.And(*xs)


def zor(*xs):
    xs = [x for x in xs if not (isinstance(x, bool) and not x)]
    if any(isinstance(x, bool) and x for x in xs):
        return z3.BoolVal(True)
    if not xs:
        return z3.BoolVal(False)
    if len(xs) == 1:
        return xs[0]
    return z3.Or(*xs)


def znot(x):
    if isinstance(x, bool):
        return not x
    return z3.Not(x)


def zbool(x):
    return z3.BoolVal(x) if isinstance(x, bool) else x

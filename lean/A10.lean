/-
A10: in a levelled forest in which every node above the leaf level D has at least one child, an antichain that
contains no complete sibling group is determined by the set of level-D nodes it covers.

The structure is abstract: `level` and `parent` are arbitrary functions with `level (parent x) + 1 = level x` for
`level x > 0`.  For a5 it is instantiated (on paper, DESIGN.md 15.8) with level = resolution + 1,
parent = cell_to_parent(., resolution - 1), D = 30; the three structural hypotheses are obligations discharged on the
real code by C06 (child/parent) and C20 (get_num_children >= 1).
No Mathlib, no axioms beyond Lean's core (checked by `#print axioms` below).
-/
namespace A10

variable {α : Type} (level : α → Nat) (parent : α → α)

/-- `Anc a x`: a is x or an ancestor of x (parents are only taken of nodes of positive level). -/
inductive Anc : α → α → Prop
  | refl (a : α) : Anc a a
  | step {a x : α} : level x > 0 → Anc a (parent x) → Anc a x

variable {level parent}

theorem Anc.trans {a b c : α} (h1 : Anc level parent a b) (h2 : Anc level parent b c) : Anc level parent a c := by
  induction h2 with
  | refl => exact h1
  | step hp _ ih => exact Anc.step hp ih

theorem Anc.level_le (hpar : ∀ x, level x > 0 → level (parent x) + 1 = level x)
    {a b : α} (h : Anc level parent a b) : level a ≤ level b := by
  induction h with
  | refl => exact Nat.le_refl _
  | @step x hp _ ih =>
      have := hpar x hp
      omega

theorem Anc.eq_of_level_ge (hpar : ∀ x, level x > 0 → level (parent x) + 1 = level x)
    {a b : α} (h : Anc level parent a b) (hl : level b ≤ level a) : a = b := by
  cases h with
  | refl => rfl
  | step hp h' =>
      have h1 := Anc.level_le hpar h'
      have h2 := hpar b hp
      omega

theorem Anc.antisymm (hpar : ∀ x, level x > 0 → level (parent x) + 1 = level x)
    {a b : α} (h1 : Anc level parent a b) (h2 : Anc level parent b a) : a = b :=
  Anc.eq_of_level_ge hpar h1 (Anc.level_le hpar h2)

/-- x is a child of p -/
def IsChild (level : α → Nat) (parent : α → α) (c p : α) : Prop := level c = level p + 1 ∧ parent c = p

/-- S contains no complete, non-empty sibling group below level D -/
def GroupFree (level : α → Nat) (parent : α → α) (D : Nat) (S : α → Prop) : Prop :=
  ¬ ∃ p, level p < D ∧ (∃ c, IsChild level parent c p) ∧ ∀ c, IsChild level parent c p → S c

def Antichain (level : α → Nat) (parent : α → α) (S : α → Prop) : Prop :=
  ∀ a b, S a → S b → Anc level parent a b → a = b

/-- the level-D node x is covered by S -/
def Covers (level : α → Nat) (parent : α → α) (S : α → Prop) (x : α) : Prop := ∃ a, S a ∧ Anc level parent a x

/-- Key lemma: if every level-D node below p is covered by a group-free set S, some member of S is p or above it. -/
theorem key (D : Nat)
    (hchild : ∀ p, level p < D → ∃ c, IsChild level parent c p)
    (S : α → Prop) (hgf : GroupFree level parent D S) :
    ∀ n p, D - level p = n → level p ≤ D →
      (∀ x, level x = D → Anc level parent p x → Covers level parent S x) → Covers level parent S p := by
  intro n
  induction n with
  | zero =>
      intro p hn hle hcov
      have : level p = D := by omega
      exact hcov p this (Anc.refl p)
  | succ n ih =>
      intro p hn hle hcov
      have hlt : level p < D := by omega
      -- either some child is covered from p or above, or every child is itself in S
      refine Classical.byContradiction fun hno => ?_
      apply hgf
      refine ⟨p, hlt, hchild p hlt, ?_⟩
      intro c hc
      have hcl : level c = level p + 1 := hc.1
      have hcp : parent c = p := hc.2
      have hpos : level c > 0 := by omega
      have hpc : Anc level parent p c := Anc.step hpos (by rw [hcp]; exact Anc.refl p)
      have hcc : Covers level parent S c := by
        apply ih c (by omega) (by omega)
        intro x hx hax
        exact hcov x hx (Anc.trans hpc hax)
      obtain ⟨a, ha, haa⟩ := hcc
      cases haa with
      | refl => exact ha
      | step _ h' =>
          rw [hcp] at h'
          exact absurd ⟨a, ha, h'⟩ hno

/-- A10: two group-free antichains of nodes of level <= D that cover the same level-D nodes are equal. -/
theorem unique (D : Nat)
    (hpar : ∀ x, level x > 0 → level (parent x) + 1 = level x)
    (hchild : ∀ p, level p < D → ∃ c, IsChild level parent c p)
    (A B : α → Prop)
    (hA : Antichain level parent A) (hB : Antichain level parent B)
    (gA : GroupFree level parent D A) (gB : GroupFree level parent D B)
    (lA : ∀ a, A a → level a ≤ D) (lB : ∀ b, B b → level b ≤ D)
    (hcov : ∀ x, level x = D → (Covers level parent A x ↔ Covers level parent B x)) :
    ∀ a, A a ↔ B a := by
  have half : ∀ (A B : α → Prop), Antichain level parent A → GroupFree level parent D A → GroupFree level parent D B →
      (∀ a, A a → level a ≤ D) → (∀ b, B b → level b ≤ D) →
      (∀ x, level x = D → (Covers level parent A x ↔ Covers level parent B x)) → ∀ a, A a → B a := by
    intro A B hA gA gB lA lB hcov a ha
    obtain ⟨b, hb, hba⟩ := key D hchild B gB _ a rfl (lA a ha)
      (fun x hx hax => (hcov x hx).mp ⟨a, ha, hax⟩)
    obtain ⟨a', ha', hab⟩ := key D hchild A gA _ b rfl (lB b hb)
      (fun x hx hbx => (hcov x hx).mpr ⟨b, hb, hbx⟩)
    have : a' = a := hA a' a ha' ha (Anc.trans hab hba)
    subst this
    have : a' = b := Anc.antisymm hpar hab hba
    subst this
    exact hb
  intro a
  exact ⟨half A B hA gA gB lA lB hcov a, half B A hB gB gA lB lA (fun x hx => (hcov x hx).symm) a⟩

/-- Corollary used for idempotence: a group-free antichain is the only group-free antichain with its own coverage,
    so re-compacting it (same coverage by C08, group-free antichain by C09) returns the same set. -/
theorem idempotent (D : Nat)
    (hpar : ∀ x, level x > 0 → level (parent x) + 1 = level x)
    (hchild : ∀ p, level p < D → ∃ c, IsChild level parent c p)
    (A : α → Prop) (compactA : α → Prop)
    (hA : Antichain level parent A) (gA : GroupFree level parent D A) (lA : ∀ a, A a → level a ≤ D)
    (hC : Antichain level parent compactA) (gC : GroupFree level parent D compactA) (lC : ∀ a, compactA a → level a ≤ D)
    (hsame : ∀ x, level x = D → (Covers level parent compactA x ↔ Covers level parent A x)) :
    ∀ a, compactA a ↔ A a :=
  unique D hpar hchild compactA A hC hA gC gA lC lA hsame


/-! ## Instantiation interface

`up x a` is the level-`a` ancestor of `x` (defined for `a ≤ res x`), `R c x` the ancestor-or-equal relation used in
the contracts.  The hypotheses are exactly the shape of obligations discharged on the real code / its specification:
  U1  up x (res x) = x                                   (C06/parent[res=r,to=r])
  U2  a ≤ m ≤ res x → res (up x m) = m ∧ up (up x m) a = up x a      (C06|C09 parent-compose[res=r])
  RU  R c x ↔ res c ≤ res x ∧ up x (res c) = c           (C08|C09 lemma/ancestor[r])
  HC  res p < D → ∃ c, res c = res p + 1 ∧ up c (res p) = p          (C09 bridge/has-child[r])
-/
section Inst
variable {α : Type} (res : α → Nat) (up : α → Nat → α) (R : α → α → Prop)

def par (res : α → Nat) (up : α → Nat → α) (x : α) : α := up x (res x - 1)

theorem hpar_of (U2 : ∀ x a m, a ≤ m → m ≤ res x → res (up x m) = m ∧ up (up x m) a = up x a) :
    ∀ x, res x > 0 → res (par res up x) + 1 = res x := by
  intro x hx
  have := (U2 x 0 (res x - 1) (Nat.zero_le _) (Nat.sub_le _ _)).1
  unfold par
  omega

theorem R_iff_Anc
    (U1 : ∀ x, up x (res x) = x)
    (U2 : ∀ x a m, a ≤ m → m ≤ res x → res (up x m) = m ∧ up (up x m) a = up x a)
    (RU : ∀ c x, R c x ↔ (res c ≤ res x ∧ up x (res c) = c)) :
    ∀ c x, R c x ↔ Anc res (par res up) c x := by
  intro c x
  constructor
  · -- R → Anc, by induction on the level difference
    intro h
    have key : ∀ n x, res x - res c = n → R c x → Anc res (par res up) c x := by
      intro n
      induction n with
      | zero =>
          intro x hn h
          obtain ⟨hle, hup⟩ := (RU c x).mp h
          have heq : res c = res x := by omega
          have : x = c := by rw [← hup, heq, U1]
          subst this
          exact Anc.refl _
      | succ n ih =>
          intro x hn h
          obtain ⟨hle, hup⟩ := (RU c x).mp h
          have hpos : res x > 0 := by omega
          have hp := U2 x (res c) (res x - 1) (by omega) (Nat.sub_le _ _)
          have hRp : R c (par res up x) := by
            apply (RU c (par res up x)).mpr
            unfold par
            refine ⟨by omega, ?_⟩
            rw [hp.2]; exact hup
          have hl : res (par res up x) = res x - 1 := by unfold par; exact hp.1
          exact Anc.step hpos (ih (par res up x) (by omega) hRp)
    exact key _ x rfl h
  · intro h
    induction h with
    | refl => exact (RU c c).mpr ⟨Nat.le_refl _, U1 c⟩
    | @step x hpos _ ih =>
        obtain ⟨hle, hup⟩ := (RU c (par res up x)).mp ih
        have hp := U2 x (res c) (res x - 1)
        have hl : res (par res up x) = res x - 1 := by
          unfold par; exact (U2 x 0 (res x - 1) (Nat.zero_le _) (Nat.sub_le _ _)).1
        have hle' : res c ≤ res x - 1 := by omega
        have hp2 := (hp hle' (Nat.sub_le _ _)).2
        apply (RU c x).mpr
        refine ⟨by omega, ?_⟩
        unfold par at hup
        rw [hp2] at hup
        exact hup

/-- A10 in the vocabulary of the contracts: two sets of cells of level ≤ D that are pairwise unrelated under `R`,
    contain no complete sibling group, and cover the same level-D cells are equal. -/
theorem unique_R (D : Nat)
    (U1 : ∀ x, up x (res x) = x)
    (U2 : ∀ x a m, a ≤ m → m ≤ res x → res (up x m) = m ∧ up (up x m) a = up x a)
    (RU : ∀ c x, R c x ↔ (res c ≤ res x ∧ up x (res c) = c))
    (HC : ∀ p, res p < D → ∃ c, res c = res p + 1 ∧ up c (res p) = p)
    (A B : α → Prop)
    (hA : ∀ a b, A a → A b → R a b → a = b) (hB : ∀ a b, B a → B b → R a b → a = b)
    (gA : ¬ ∃ p, res p < D ∧ ∀ c, res c = res p + 1 → up c (res p) = p → A c)
    (gB : ¬ ∃ p, res p < D ∧ ∀ c, res c = res p + 1 → up c (res p) = p → B c)
    (lA : ∀ a, A a → res a ≤ D) (lB : ∀ b, B b → res b ≤ D)
    (hcov : ∀ x, res x = D → ((∃ a, A a ∧ R a x) ↔ (∃ b, B b ∧ R b x))) :
    ∀ a, A a ↔ B a := by
  have RA := R_iff_Anc res up R U1 U2 RU
  have hp := hpar_of res up U2
  have childIff : ∀ c p, IsChild res (par res up) c p ↔ (res c = res p + 1 ∧ up c (res p) = p) := by
    intro c p
    unfold IsChild par
    constructor
    · rintro ⟨h1, h2⟩
      refine ⟨h1, ?_⟩
      have : res c - 1 = res p := by omega
      rw [this] at h2; exact h2
    · rintro ⟨h1, h2⟩
      refine ⟨h1, ?_⟩
      have : res c - 1 = res p := by omega
      rw [this]; exact h2
  have hchild : ∀ p, res p < D → ∃ c, IsChild res (par res up) c p := by
    intro p hpD
    obtain ⟨c, h1, h2⟩ := HC p hpD
    exact ⟨c, (childIff c p).mpr ⟨h1, h2⟩⟩
  have gf : ∀ S : α → Prop, (¬ ∃ p, res p < D ∧ ∀ c, res c = res p + 1 → up c (res p) = p → S c) →
      GroupFree res (par res up) D S := by
    intro S g ⟨p, hpD, _, hall⟩
    exact g ⟨p, hpD, fun c h1 h2 => hall c ((childIff c p).mpr ⟨h1, h2⟩)⟩
  apply unique D hp hchild A B
  · intro a b ha hb hab; exact hA a b ha hb ((RA a b).mpr hab)
  · intro a b ha hb hab; exact hB a b ha hb ((RA a b).mpr hab)
  · exact gf A gA
  · exact gf B gB
  · exact lA
  · exact lB
  · intro x hx
    constructor
    · rintro ⟨a, ha, hax⟩
      obtain ⟨b, hb, hbx⟩ := (hcov x hx).mp ⟨a, ha, (RA a x).mpr hax⟩
      exact ⟨b, hb, (RA b x).mp hbx⟩
    · rintro ⟨b, hb, hbx⟩
      obtain ⟨a, ha, hax⟩ := (hcov x hx).mpr ⟨b, hb, (RA b x).mpr hbx⟩
      exact ⟨a, ha, (RA a x).mp hax⟩

end Inst

end A10

#print axioms A10.unique
#print axioms A10.idempotent
#print axioms A10.unique_R
